//! Triage of the nondeterministic failure of tests/flaky_c03.rs
//! ("after sequential fill": host cluster 4, 5, ... leaked, i.e. the l1 entry
//! is missing from the image file although flush_meta() returned Ok).
//!
//! Root cause: `Qcow2IoTokio::write_at()` (src/tokio_io.rs) is write-behind.
//! `tokio::fs::File::write()` only copies the data into the File's internal
//! buffer and queues a job on tokio's blocking pool; it returns before
//! write(2) was called. `write_from()` returning Ok therefore does NOT mean
//! that the data is in the file. The pending write is only waited for by the
//! next operation that goes through the same `tokio::fs::File` (seek, read,
//! write, sync_all).
//!
//! Up to commit 9f5bd2a flush_meta() ended with the l1 block write
//! (`flush_meta_generic()`: `self.flush_table(rt, ...)` was the last request),
//! so flush_meta() returned Ok while the l1 write was still queued, and
//! whoever looked at the file next (`std::fs::read()` in flaky_c03.rs) raced
//! with tokio's blocking pool. Commit 2187c40 added a `call_fsync()` right
//! after that write (for crash ordering); `File::sync_all()` waits for the
//! pending write, which closes this particular window as a side effect.
//!
//! * `tokio_write_from_returns_before_the_data_is_in_the_file`: deterministic
//!   proof of the write-behind on the real backend (fails on the library as it
//!   is, every time).
//! * `tokio_punch_overtakes_pending_write_stale_data`: a consequence that is
//!   still reachable through the public API: `fallocate()` goes straight to
//!   the raw fd and overtakes the pending write (fails on the library as it
//!   is, every time).
//! * `write_behind_model_flaky_c03_first_checkpoint`: the first checkpoint of
//!   flaky_c03.rs on a backend which models the write-behind
//!   deterministically. Fails every time up to 9f5bd2a, passes since 2187c40.
//!
//! The checker (`Img`) below is a verbatim copy of the one in flaky_c03.rs.

#![allow(dead_code)]

use qcow2_rs::dev::*;
use qcow2_rs::error::Qcow2Result;
use qcow2_rs::helpers::Qcow2IoBuf;
use qcow2_rs::ops::Qcow2IoOps;
use qcow2_rs::tokio_io::Qcow2IoTokio;
use qcow2_rs::utils::{make_temp_qcow2_img, qcow2_alloc_dev, qcow2_setup_dev_tokio};
use std::collections::HashMap;
use std::os::unix::fs::FileExt;
use std::os::unix::io::AsRawFd;
use std::path::Path;
use std::sync::mpsc;
use std::sync::{Arc, Mutex};

fn be32(b: &[u8], off: usize) -> u32 {
    u32::from_be_bytes(b[off..off + 4].try_into().unwrap())
}
fn be64(b: &[u8], off: usize) -> u64 {
    if off + 8 > b.len() {
        return 0;
    }
    u64::from_be_bytes(b[off..off + 8].try_into().unwrap())
}

struct Img {
    data: Vec<u8>,
    cluster_bits: u32,
    size: u64,
    l1_size: u32,
    l1_off: u64,
    rt_off: u64,
    rt_clusters: u32,
    refcount_order: u32,
}

impl Img {
    fn parse(data: Vec<u8>) -> Img {
        assert_eq!(be32(&data, 0), 0x514649fb);
        let version = be32(&data, 4);
        Img {
            cluster_bits: be32(&data, 20),
            size: be64(&data, 24),
            l1_size: be32(&data, 36),
            l1_off: be64(&data, 40),
            rt_off: be64(&data, 48),
            rt_clusters: be32(&data, 56),
            refcount_order: if version >= 3 { be32(&data, 96) } else { 4 },
            data,
        }
    }
    fn cs(&self) -> u64 {
        1u64 << self.cluster_bits
    }
    fn byte(&self, off: u64) -> u8 {
        *self.data.get(off as usize).unwrap_or(&0)
    }
    /// entries per refcount block
    fn rb_entries(&self) -> u64 {
        (self.cs() * 8) >> self.refcount_order
    }
    fn rt_entries(&self) -> u64 {
        (self.rt_clusters as u64) * self.cs() / 8
    }
    /// stored refcount of host cluster `idx`
    fn stored(&self, idx: u64) -> u64 {
        let rt_idx = idx / self.rb_entries();
        if rt_idx >= self.rt_entries() {
            return 0;
        }
        let rb = be64(&self.data, (self.rt_off + rt_idx * 8) as usize) & 0xffff_ffff_ffff_fe00;
        if rb == 0 {
            return 0;
        }
        let i = idx % self.rb_entries();
        let bits = 1u64 << self.refcount_order;
        if bits < 8 {
            let per = 8 / bits;
            let b = self.byte(rb + i / per) as u64;
            (b >> ((i % per) * bits)) & ((1 << bits) - 1)
        } else {
            let n = bits / 8;
            let mut v = 0u64;
            for k in 0..n {
                v = (v << 8) | self.byte(rb + i * n + k) as u64;
            }
            v
        }
    }
    /// guest cluster index -> host cluster index, for standard clusters
    fn guest_map(&self) -> HashMap<u64, u64> {
        let mut m = HashMap::new();
        let l2_entries = self.cs() / 8;
        for i in 0..self.l1_size as u64 {
            let l1e = be64(&self.data, (self.l1_off + i * 8) as usize);
            let l2_off = l1e & 0x00ff_ffff_ffff_fe00;
            if l2_off == 0 {
                continue;
            }
            for j in 0..l2_entries {
                let e = be64(&self.data, (l2_off + j * 8) as usize);
                if e & (1 << 62) == 0 && (e & 0x00ff_ffff_ffff_fe00) != 0 {
                    m.insert(i * l2_entries + j, (e & 0x00ff_ffff_ffff_fe00) >> self.cluster_bits);
                }
            }
        }
        m
    }

    /// Independent structural + refcount check. Returns list of problems.
    fn check(&self) -> Vec<String> {
        let mut errs = Vec::new();
        let cs = self.cs();
        let cb = self.cluster_bits;
        let mut refs: HashMap<u64, u64> = HashMap::new();
        let add = |c: u64, refs: &mut HashMap<u64, u64>| *refs.entry(c).or_insert(0) += 1;

        // header
        add(0, &mut refs);

        // refcount table and blocks
        if self.rt_off % cs != 0 {
            errs.push(format!("reftable offset {:x} unaligned", self.rt_off));
        }
        for k in 0..self.rt_clusters as u64 {
            add((self.rt_off >> cb) + k, &mut refs);
        }
        for i in 0..self.rt_entries() {
            let e = be64(&self.data, (self.rt_off + i * 8) as usize);
            if e == 0 {
                continue;
            }
            if e & 0x1ff != 0 || e % cs != 0 {
                errs.push(format!("reftable[{i}] = {e:x} is invalid"));
                continue;
            }
            add(e >> cb, &mut refs);
        }

        // L1 / L2 / data
        if self.l1_off % cs != 0 {
            errs.push(format!("l1 offset {:x} unaligned", self.l1_off));
        }
        let l1_clusters = (self.l1_size as u64 * 8).div_ceil(cs);
        for k in 0..l1_clusters {
            add((self.l1_off >> cb) + k, &mut refs);
        }
        let l2_entries = cs / 8;
        for i in 0..self.l1_size as u64 {
            let l1e = be64(&self.data, (self.l1_off + i * 8) as usize);
            if l1e == 0 {
                continue;
            }
            let l2_off = l1e & 0x00ff_ffff_ffff_fe00;
            if l1e & 0x7f00_0000_0000_01fe != 0 || l2_off % cs != 0 {
                errs.push(format!("l1[{i}] = {l1e:x} is invalid"));
                continue;
            }
            if l2_off == 0 {
                continue;
            }
            if l1e & (1 << 63) == 0 {
                errs.push(format!("l1[{i}] = {l1e:x} lacks COPIED"));
            }
            add(l2_off >> cb, &mut refs);

            for j in 0..l2_entries {
                let e = be64(&self.data, (l2_off + j * 8) as usize);
                if e == 0 {
                    continue;
                }
                let guest = (i * l2_entries + j) << cb;
                if guest >= self.size {
                    errs.push(format!("l2 entry {e:x} maps guest {guest:x} beyond virtual size"));
                }
                if e & (1 << 62) != 0 {
                    // compressed
                    let off_bits = 62 - (cb - 8);
                    let coff = e & ((1u64 << off_bits) - 1);
                    let nsec = ((e & 0x3fff_ffff_ffff_ffff) >> off_bits) + 1;
                    let csize = nsec * 512 - (coff & 511);
                    let first = coff >> cb;
                    let last = (coff + csize - 1) >> cb;
                    for c in first..=last {
                        add(c, &mut refs);
                    }
                } else {
                    let off = e & 0x00ff_ffff_ffff_fe00;
                    if e & 0x3f00_0000_0000_01fe != 0 || off % cs != 0 {
                        errs.push(format!("l2 entry {e:x} (guest {guest:x}) is invalid"));
                        continue;
                    }
                    if off != 0 {
                        if e & (1 << 63) == 0 {
                            errs.push(format!("l2 entry {e:x} (guest {guest:x}) lacks COPIED"));
                        }
                        add(off >> cb, &mut refs);
                    }
                }
            }
        }

        // compare with the stored refcounts, over everything the reftable
        // can describe plus everything that got referenced
        let mut max_cluster = (self.data.len() as u64).div_ceil(cs);
        for i in 0..self.rt_entries() {
            if be64(&self.data, (self.rt_off + i * 8) as usize) != 0 {
                max_cluster = max_cluster.max((i + 1) * self.rb_entries());
            }
        }
        if let Some(m) = refs.keys().max() {
            max_cluster = max_cluster.max(m + 1);
        }
        for c in 0..max_cluster {
            let want = *refs.get(&c).unwrap_or(&0);
            let have = self.stored(c);
            if want != have {
                let kind = if have > want { "leaked" } else { "under-counted" };
                errs.push(format!(
                    "host cluster {c}: stored refcount {have}, references {want} ({kind})"
                ));
            }
        }
        errs
    }
}

const CLUSTER_BITS: usize = 12;
const CS: u64 = 1 << CLUSTER_BITS;

fn pattern_buf(len: usize, pattern: u8) -> Qcow2IoBuf<u8> {
    let mut buf = Qcow2IoBuf::<u8>::new(len);
    for b in &mut buf[..] {
        *b = pattern;
    }
    buf
}


// ---------------------------------------------------------------------------
// 1. the real tokio backend, made deterministic by a blocking pool of exactly
//    one thread whose job queue (FIFO) we control
// ---------------------------------------------------------------------------

fn one_blocking_thread_runtime() -> tokio::runtime::Runtime {
    tokio::runtime::Builder::new_current_thread()
        .enable_all()
        .max_blocking_threads(1)
        .build()
        .unwrap()
}

/// A job for the blocking pool which occupies the (only) thread until
/// released.
struct Gate {
    release: mpsc::Sender<()>,
    job: tokio::task::JoinHandle<()>,
}

fn spawn_gate() -> Gate {
    let (tx, rx) = mpsc::channel::<()>();
    let job = tokio::task::spawn_blocking(move || {
        let _ = rx.recv();
    });
    Gate { release: tx, job }
}

impl Gate {
    async fn open(self) {
        let _ = self.release.send(());
        self.job.await.unwrap();
    }
}

/// Run `fut` such that everything up to and including its first seek runs
/// normally, while the `File::write()` job which follows that seek stays
/// queued in tokio's blocking pool behind a gate.
///
/// Blocking pool queue: [first (running)] [seek of fut] [gate] [write of fut]
///
/// Returns the still closed gate if `fut` completed although its write job
/// can't have run (write-behind). If `fut` doesn't complete within 500ms the
/// gate is opened to let it finish, and None is returned: the backend waits
/// for its data to be written.
async fn run_with_write_left_pending<F: std::future::Future>(
    fut: F,
) -> (F::Output, Option<Gate>) {
    let first = spawn_gate();
    let gate = std::cell::RefCell::new(None);
    let done = std::cell::Cell::new(false);
    let (out, _) = futures::join!(
        async {
            // polled first: queues its seek behind `first` and waits
            let out = fut.await;
            done.set(true);
            out
        },
        async {
            // queued behind the seek
            *gate.borrow_mut() = Some(spawn_gate());
            // let the pool go: the seek runs, then the gate occupies the thread
            first.open().await;
            for _ in 0..100 {
                if done.get() {
                    return;
                }
                tokio::time::sleep(std::time::Duration::from_millis(5)).await;
            }
            let g: Gate = gate.borrow_mut().take().unwrap();
            g.open().await;
        }
    );
    (out, gate.into_inner())
}

#[test]
fn tokio_write_from_returns_before_the_data_is_in_the_file() {
    let rt = one_blocking_thread_runtime();
    rt.block_on(async {
        let tmp = tempfile::NamedTempFile::new().unwrap();
        let path = tmp.path().to_path_buf();
        std::fs::write(&path, vec![0u8; 8192]).unwrap();

        let io = Qcow2IoTokio::new(&path, false, false).await;
        let buf = pattern_buf(512, 0xab);

        let (res, gate) = run_with_write_left_pending(io.write_from(4096, &buf)).await;
        res.unwrap(); // the backend said: written

        // look at the file like any other process / fd would
        let seen = std::fs::read(&path).unwrap()[4096..4096 + 512].to_vec();

        // let the pool continue, and drain the File
        if let Some(gate) = gate {
            gate.open().await;
        }
        io.fsync(0, usize::MAX, 0).await.unwrap();
        let later = std::fs::read(&path).unwrap()[4096..4096 + 512].to_vec();
        assert!(later.iter().all(|b| *b == 0xab), "data never arrived");

        assert!(
            seen.iter().all(|b| *b == 0xab),
            "write_from() returned Ok, but the file still has {:02x?}.. at that place; \
             the data only arrived after the next operation on the tokio File",
            &seen[..4]
        );
    });
}

#[test]
fn tokio_punch_overtakes_pending_write_stale_data() {
    let rt = one_blocking_thread_runtime();
    rt.block_on(async {
        let img = make_temp_qcow2_img(64 << 20, CLUSTER_BITS, 4);
        let path = img.path().to_path_buf();
        let params = Qcow2DevParams::new(9, Some((9, 64 << 10)), None, false, false);
        let dev = qcow2_setup_dev_tokio(&path, &params).await.unwrap();

        // guest cluster 0 gets a host cluster; everything is on disk
        let a = pattern_buf(CS as usize, 0x11);
        dev.write_at(&a, 0).await.unwrap();
        dev.flush_meta().await.unwrap();

        // overwrite guest cluster 0 in place; write_at() returns Ok with the
        // data write still queued inside tokio
        let secret = pattern_buf(CS as usize, 0xee);
        let (res, gate) = run_with_write_left_pending(dev.write_at(&secret, 0)).await;
        res.unwrap();

        // discard it: mapping cleared, host cluster freed, host cluster
        // punched -- the punch hits the raw fd at once, i.e. BEFORE the
        // queued write
        dev.discard(0, CS).await.unwrap();

        // a small write to another guest cluster re-uses the freed host
        // cluster: it is punched again (still before the queued write), then
        // the 512 byte write waits for the queued write to land
        let small = pattern_buf(512, 0x22);
        let (res, _) = futures::join!(dev.write_at(&small, 100 * CS), async {
            if let Some(gate) = gate {
                gate.open().await;
            }
        });
        res.unwrap();
        dev.flush_meta().await.unwrap();

        let mut rbuf = Qcow2IoBuf::<u8>::new(CS as usize);
        dev.read_at(&mut rbuf, 100 * CS).await.unwrap();
        assert!(rbuf[..512].iter().all(|b| *b == 0x22));
        let stale = rbuf[512..].iter().filter(|b| **b == 0xee).count();
        assert_eq!(
            stale, 0,
            "guest cluster 100 was never written beyond its first 512 bytes, but {stale} bytes \
             read back as the discarded content of guest cluster 0"
        );
    });
}

// ---------------------------------------------------------------------------
// 2. a backend which models Qcow2IoTokio deterministically: write_from() parks
//    the request, the next request through "the File" (read/write/fsync)
//    applies it first; fallocate() goes straight to the fd
// ---------------------------------------------------------------------------

struct WriteBehindIo {
    file: std::fs::File,
    pending: Mutex<Option<(u64, Vec<u8>)>>,
    /// (punch offset, pending write offset) for every punch which hit the fd
    /// while a write to the very same cluster was still pending
    overtaken: Arc<Mutex<Vec<(u64, u64)>>>,
}

impl WriteBehindIo {
    fn new(path: &Path, overtaken: Arc<Mutex<Vec<(u64, u64)>>>) -> Self {
        let file = std::fs::OpenOptions::new().read(true).write(true).open(path).unwrap();
        WriteBehindIo { file, pending: Mutex::new(None), overtaken }
    }
    fn complete_inflight(&self) {
        if let Some((off, data)) = self.pending.lock().unwrap().take() {
            self.file.write_all_at(&data, off).unwrap();
        }
    }
}

impl Qcow2IoOps for WriteBehindIo {
    async fn read_to(&self, offset: u64, buf: &mut [u8]) -> Qcow2Result<usize> {
        self.complete_inflight();
        Ok(self.file.read_at(buf, offset)?)
    }
    async fn write_from(&self, offset: u64, buf: &[u8]) -> Qcow2Result<()> {
        self.complete_inflight();
        *self.pending.lock().unwrap() = Some((offset, buf.to_vec()));
        Ok(())
    }
    async fn fallocate(&self, offset: u64, len: usize, _flags: u32) -> Qcow2Result<()> {
        if let Some((off, data)) = &*self.pending.lock().unwrap() {
            if *off < offset + len as u64 && offset < *off + data.len() as u64 {
                self.overtaken.lock().unwrap().push((offset, *off));
            }
        }
        let r = unsafe {
            libc::fallocate(
                self.file.as_raw_fd(),
                libc::FALLOC_FL_PUNCH_HOLE | libc::FALLOC_FL_KEEP_SIZE,
                offset as libc::off_t,
                len as libc::off_t,
            )
        };
        if r < 0 {
            return Err("fallocate failed".into());
        }
        Ok(())
    }
    async fn fsync(&self, _offset: u64, _len: usize, _flags: u32) -> Qcow2Result<()> {
        self.complete_inflight();
        self.file.sync_all()?;
        Ok(())
    }
}

#[test]
fn write_behind_model_flaky_c03_first_checkpoint() {
    let rt = tokio::runtime::Runtime::new().unwrap();
    rt.block_on(async {
        let img = make_temp_qcow2_img(64 << 20, CLUSTER_BITS, 4);
        let path = img.path().to_path_buf();
        let params = Qcow2DevParams::new(9, Some((9, 64 << 10)), None, false, false);
        let overtaken = Arc::new(Mutex::new(Vec::new()));
        let io = WriteBehindIo::new(&path, overtaken.clone());
        let (dev, _) = qcow2_alloc_dev(&path, io, &params).await.unwrap();
        dev.qcow2_prep_io().await.unwrap();

        for g in 0..300u64 {
            let buf = pattern_buf(CS as usize, (g % 251) as u8 + 1);
            dev.write_at(&buf, g * CS).await.unwrap();
        }
        dev.flush_meta().await.unwrap();

        // no punch raced with a pending write to the same cluster, so the
        // raw-fd fallocate is not what breaks flaky_c03
        assert_eq!(*overtaken.lock().unwrap(), Vec::<(u64, u64)>::new());

        let parsed = Img::parse(std::fs::read(&path).unwrap());
        let errs = parsed.check();
        assert!(
            errs.is_empty(),
            "flush_meta() returned Ok with a request still parked in the backend; \
             {} problems, first: {}",
            errs.len(),
            errs[0]
        );
    });
}

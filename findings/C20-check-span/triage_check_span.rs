//! Triage: `Qcow2Dev::check()` must report a leaked host cluster that directly
//! follows a compressed extent, also when the extent ends exactly on the host
//! cluster boundary (the extent does not touch the following cluster then).
//!
//! Host cluster layout of the hand built image (64k clusters, 16bit refcounts):
//!   0 header, 1 reftable, 2 refblock, 3 l1 (all made by the formatter)
//!   4 l2 table
//!   5 compressed data of guest cluster 0, in the last sectors of the cluster
//!   6 nothing; refcount 0 (consistent image) or 1 (leaked cluster)

use qcow2_rs::dev::*;
use qcow2_rs::helpers::Qcow2IoBuf;
use qcow2_rs::utils::{make_temp_qcow2_img, qcow2_setup_dev_tokio};
use std::io::Write;
use tokio::runtime::Runtime;

const CLUSTER_BITS: usize = 16;
const CS: u64 = 1 << CLUSTER_BITS;

fn be32(b: &[u8], off: usize) -> u32 {
    u32::from_be_bytes(b[off..off + 4].try_into().unwrap())
}
fn be64(b: &[u8], off: usize) -> u64 {
    u64::from_be_bytes(b[off..off + 8].try_into().unwrap())
}
fn put_be64(v: &mut [u8], off: usize, val: u64) {
    v[off..off + 8].copy_from_slice(&val.to_be_bytes());
}
fn put_be16(v: &mut [u8], off: usize, val: u16) {
    v[off..off + 2].copy_from_slice(&val.to_be_bytes());
}

/// moderately compressible cluster content
fn guest_data(seed: u32) -> Vec<u8> {
    let mut x = seed;
    (0..CS as usize)
        .map(|i| {
            if i % 16 == 0 {
                x = x.wrapping_mul(1664525).wrapping_add(1013904223);
            }
            if i % 16 < 2 {
                (x >> (8 * (i % 16) + 8)) as u8
            } else {
                (i % 16) as u8
            }
        })
        .collect()
}

/// Build the image. The compressed extent (as the L2 descriptor describes it)
/// ends `gap_sectors` sectors before the end of host cluster 5.
/// `leak` sets the refcount of host cluster 6 to 1.
///
/// Returns the image, the guest data and the exclusive end of the extent.
fn build_image(gap_sectors: u64, leak: bool) -> (tempfile::NamedTempFile, Vec<u8>, u64) {
    let img = make_temp_qcow2_img(64 << 20, CLUSTER_BITS, 4);
    let path = img.path().to_path_buf();

    let mut file = std::fs::read(&path).unwrap();
    assert_eq!(be32(&file, 0), 0x514649fb);
    assert_eq!(be32(&file, 20) as usize, CLUSTER_BITS);
    let l1_off = be64(&file, 40);
    let rt_off = be64(&file, 48);
    assert_eq!((rt_off, l1_off), (CS, 3 * CS));
    assert_eq!(be32(&file, 96), 4, "refcount order");
    let rb_off = (be64(&file, rt_off as usize) & 0xffff_ffff_ffff_fe00) as usize;
    assert_eq!(rb_off, 2 * CS as usize);
    // what the formatter made: clusters 0..=3 in use, nothing else
    for c in 0..16usize {
        let rc = u16::from_be_bytes(file[rb_off + 2 * c..rb_off + 2 * c + 2].try_into().unwrap());
        assert_eq!(rc, if c < 4 { 1 } else { 0 }, "formatter refcount of cluster {c}");
    }
    file.resize(7 * CS as usize, 0);

    let d0 = guest_data(1);
    let c = miniz_oxide::deflate::compress_to_vec(&d0, 6);
    let clen = c.len() as u64;
    assert!(clen > 512 && clen < CS / 2);
    let nsect = clen.div_ceil(512);
    // sector aligned start, so the descriptor covers exactly nsect sectors
    let coff = 6 * CS - (nsect + gap_sectors) * 512;
    assert!(coff > 5 * CS);
    file[coff as usize..(coff + clen) as usize].copy_from_slice(&c);

    let off_bits = 62 - (CLUSTER_BITS as u64 - 8);
    let e0 = (1u64 << 62) | ((nsect - 1) << off_bits) | coff;

    // what the descriptor says (spec: nb_sectors + 1 sectors, starting with
    // the sector that holds the offset)
    let d_off = e0 & ((1 << off_bits) - 1);
    let d_len = (((e0 & 0x3fff_ffff_ffff_ffff) >> off_bits) + 1) * 512 - (d_off & 511);
    assert_eq!(d_off, coff);
    assert_eq!(d_off + d_len, 6 * CS - gap_sectors * 512);
    assert_eq!(d_off >> CLUSTER_BITS, 5);
    assert_eq!((d_off + d_len - 1) >> CLUSTER_BITS, 5, "extent touches host cluster 5 only");

    let l2_off = 4 * CS;
    put_be64(&mut file, l2_off as usize, e0);
    put_be64(&mut file, l1_off as usize, (1 << 63) | l2_off);
    put_be16(&mut file, rb_off + 4 * 2, 1); // l2 table
    put_be16(&mut file, rb_off + 5 * 2, 1); // compressed data of guest 0
    put_be16(&mut file, rb_off + 6 * 2, if leak { 1 } else { 0 });

    std::fs::File::create(&path).unwrap().write_all(&file).unwrap();
    println!(
        "gap {gap_sectors} sectors, leak {leak}: l2[0] = {e0:x}, extent {d_off:x}+{d_len} ends at {:x} \
         (host cluster 6 starts at {:x}), refcount[6] = {}",
        d_off + d_len,
        6 * CS,
        leak as u8
    );
    (img, d0, d_off + d_len)
}

/// open the image with the library, verify the data, return `check()`'s verdict
async fn lib_check(img: &tempfile::NamedTempFile, d0: &[u8]) -> Result<(), String> {
    let path = img.path().to_path_buf();
    let params = Qcow2DevParams::new(9, None, None, false, false);
    let dev = qcow2_setup_dev_tokio(&path, &params).await.unwrap();

    let mut rbuf = Qcow2IoBuf::<u8>::new(CS as usize);
    dev.read_at(&mut rbuf, 0).await.unwrap();
    assert!(rbuf[..] == d0[..], "compressed guest cluster 0 reads back wrong data");

    dev.check().await.map_err(|e| format!("{e:?}"))
}

fn run_case(gap_sectors: u64) {
    Runtime::new().unwrap().block_on(async {
        // same image without the leak: consistent, check() has to accept it
        let (img, d0, _) = build_image(gap_sectors, false);
        let res = lib_check(&img, &d0).await;
        println!("gap {gap_sectors}: check() of the consistent image: {res:?}");
        assert!(res.is_ok(), "consistent image is rejected: {res:?}");

        // host cluster 6 leaked
        let (img, d0, ext_end) = build_image(gap_sectors, true);
        let res = lib_check(&img, &d0).await;
        println!("gap {gap_sectors}: check() of the image with leaked host cluster 6: {res:?}");
        assert!(
            res.is_err(),
            "host cluster 6 has refcount 1 and no reference (compressed extent ends at {ext_end:x}, \
             cluster 6 starts at {:x}), but check() returned {res:?}",
            6 * CS
        );
    });
}

/// suspect: extent ends exactly at the start of host cluster 6
#[test]
fn leak_after_compressed_extent_ending_on_boundary() {
    run_case(0);
}

/// control: extent ends one sector before host cluster 6
#[test]
fn leak_after_compressed_extent_ending_one_sector_before_boundary() {
    run_case(1);
}

//! C04 triage: crash consistency of the UNMODIFIED library.
//!
//! Property: if the host stops at any instant, with every request issued
//! since the last completed fsync independently persisted, lost, or torn at
//! block granularity, the surviving file is still a usable qcow2 image:
//! header and tables parse, every reachable pointer is aligned and targets an
//! initialised table, and no reachable cluster has a stored refcount lower
//! than its number of references. Leaked clusters are the only permitted
//! damage.
//!
//! Every test drives the real library on an in-memory backend which records
//! the request stream, then replays every prefix of the stream with subsets of
//! the requests issued since the last fsync, and checks each crash image with
//! an independent checker written against the on-disk format.
//!
//! Crash state enumeration: requests are split into 512 byte units (writes up
//! to 4096 bytes can be torn). Units which target a cluster that never is meta
//! data (header / reftable / refblock / L1 / L2 in the initial or final image)
//! are "data units": they are either all lost or all persisted. All subsets of
//! the un-synced meta data units are enumerated (if there are more than 12 of
//! them: per request strategies). Every enumerated state is a legal crash
//! state, so every reported failure is real; coverage is what is bounded.

use qcow2_rs::dev::{Qcow2Dev, Qcow2DevParams};
use qcow2_rs::error::Qcow2Result;
use qcow2_rs::meta::Qcow2Header;
use qcow2_rs::ops::Qcow2IoOps;
use qcow2_rs::utils::qcow2_alloc_dev;
use std::cell::RefCell;
use std::collections::{BTreeMap, BTreeSet};
use std::path::Path;
use std::rc::Rc;

const BS: usize = 512;
const POISON: u8 = 0xA5;

// ---------------------------------------------------------------------------
// backend
// ---------------------------------------------------------------------------

#[derive(Clone)]
enum Req {
    Write { off: u64, data: Vec<u8> },
    Zero { off: u64, len: usize },
    Fsync,
}

struct Disk {
    cur: Vec<u8>,
    /// per 512 byte block: has it ever been written / zeroed
    init: Vec<bool>,
    log: Vec<Req>,
}

#[derive(Clone)]
struct MemIo(Rc<RefCell<Disk>>);

impl MemIo {
    fn new(cur: Vec<u8>, init: Vec<bool>) -> Self {
        assert_eq!(cur.len(), init.len() * BS);
        MemIo(Rc::new(RefCell::new(Disk {
            cur,
            init,
            log: Vec::new(),
        })))
    }

    /// Everything issued so far is considered durable (caller just fsynced):
    /// return the image + init map and restart the request log.
    fn checkpoint(&self) -> (Vec<u8>, Vec<bool>) {
        let mut d = self.0.borrow_mut();
        d.log.clear();
        (d.cur.clone(), d.init.clone())
    }

    fn log(&self) -> Vec<Req> {
        self.0.borrow().log.clone()
    }

    fn bytes(&self) -> Vec<u8> {
        self.0.borrow().cur.clone()
    }

    fn init_map(&self) -> Vec<bool> {
        self.0.borrow().init.clone()
    }
}

impl Qcow2IoOps for MemIo {
    async fn read_to(&self, offset: u64, buf: &mut [u8]) -> Qcow2Result<usize> {
        let d = self.0.borrow();
        let off = offset as usize;
        assert!(off + buf.len() <= d.cur.len(), "read beyond device");
        buf.copy_from_slice(&d.cur[off..off + buf.len()]);
        Ok(buf.len())
    }

    async fn write_from(&self, offset: u64, buf: &[u8]) -> Qcow2Result<()> {
        let mut d = self.0.borrow_mut();
        let off = offset as usize;
        assert!(off % BS == 0 && buf.len() % BS == 0, "unaligned write");
        assert!(off + buf.len() <= d.cur.len(), "write beyond device");
        d.cur[off..off + buf.len()].copy_from_slice(buf);
        d.init[off / BS..(off + buf.len()) / BS].fill(true);
        d.log.push(Req::Write {
            off: offset,
            data: buf.to_vec(),
        });
        Ok(())
    }

    async fn fallocate(&self, offset: u64, len: usize, _flags: u32) -> Qcow2Result<()> {
        let mut d = self.0.borrow_mut();
        let off = offset as usize;
        assert!(off % BS == 0 && len % BS == 0, "unaligned fallocate");
        assert!(off + len <= d.cur.len(), "fallocate beyond device");
        d.cur[off..off + len].fill(0);
        d.init[off / BS..(off + len) / BS].fill(true);
        d.log.push(Req::Zero { off: offset, len });
        Ok(())
    }

    async fn fsync(&self, _offset: u64, _len: usize, _flags: u32) -> Qcow2Result<()> {
        // like every in-tree backend: whole-device barrier
        self.0.borrow_mut().log.push(Req::Fsync);
        Ok(())
    }
}

/// Build a device: formatted qcow2 meta (header, reftable, first refblock,
/// zeroed l1 table); everything else is poison and "never written".
fn make_disk(
    disk_size: usize,
    virt_size: u64,
    cluster_bits: usize,
    backing_name: Option<&str>,
) -> MemIo {
    let (rc_t, rc_b, l1) = Qcow2Header::calculate_meta_params(virt_size, cluster_bits, 4, BS);
    let formatted = ((1 + rc_t.1 + rc_b.1 + l1.1) as usize) << cluster_bits;
    assert!(formatted < disk_size);

    let mut img = vec![POISON; disk_size];
    img[..formatted].fill(0);
    Qcow2Header::format_qcow2(&mut img[..formatted], virt_size, cluster_bits, 4, BS).unwrap();

    if let Some(name) = backing_name {
        // backing_file_offset (be64 @8), backing_file_size (be32 @16); the
        // header is 112 bytes followed by an all zero end-of-extensions
        // marker, put the name well after that (still inside cluster 0).
        let off = 256usize;
        assert!(cluster_bits >= 10);
        img[8..16].copy_from_slice(&(off as u64).to_be_bytes());
        img[16..20].copy_from_slice(&(name.len() as u32).to_be_bytes());
        img[off..off + name.len()].copy_from_slice(name.as_bytes());
    }

    let mut init = vec![false; disk_size / BS];
    init[..formatted / BS].fill(true);
    MemIo::new(img, init)
}

// ---------------------------------------------------------------------------
// independent checker
// ---------------------------------------------------------------------------

fn be32(b: &[u8], off: usize) -> u64 {
    u32::from_be_bytes(b[off..off + 4].try_into().unwrap()) as u64
}

fn be64(b: &[u8], off: usize) -> u64 {
    u64::from_be_bytes(b[off..off + 8].try_into().unwrap())
}

/// Independent checker of one crash image
fn check_image(img: &[u8], init: &[bool]) -> Result<(), String> {
    Qcow2Header::from_buf(&img[..4096]).map_err(|e| format!("header does not parse: {e:?}"))?;

    let cluster_bits = be32(img, 20) as usize;
    let l1_entries = be32(img, 36) as usize;
    let l1_off = be64(img, 40);
    let rt_off = be64(img, 48);
    let rt_clusters = be32(img, 56) as usize;
    let refcount_order = be32(img, 96);
    assert_eq!(refcount_order, 4, "checker only handles 16bit refcounts");

    let cs = 1usize << cluster_bits;
    let cmask = (cs - 1) as u64;
    let disk = img.len() as u64;

    let table_ok = |what: &str, off: u64, bytes: usize| -> Result<(), String> {
        if off & cmask != 0 {
            return Err(format!("{what}: offset {off:#x} is not cluster aligned"));
        }
        if off == 0 || off + bytes as u64 > disk {
            return Err(format!("{what}: offset {off:#x} is out of range"));
        }
        let first = off as usize / BS;
        let last = (off as usize + bytes).div_ceil(BS);
        if let Some(b) = (first..last).find(|b| !init[*b]) {
            return Err(format!(
                "{what}: table at {off:#x} is not initialised (block {:#x} never reached the disk)",
                b * BS
            ));
        }
        Ok(())
    };

    // cluster index -> (number of references, who)
    let mut refs: BTreeMap<u64, (u64, String)> = BTreeMap::new();
    let mut add_ref = |off: u64, who: String| {
        let e = refs.entry(off >> cluster_bits).or_insert((0, who));
        e.0 += 1;
    };

    add_ref(0, "header".into());

    // refcount table
    table_ok("reftable", rt_off, rt_clusters * cs)?;
    for i in 0..rt_clusters {
        add_ref(rt_off + (i * cs) as u64, "reftable".into());
    }
    let rt_entries = rt_clusters * cs / 8;
    for i in 0..rt_entries {
        let e = be64(img, rt_off as usize + i * 8);
        if e == 0 {
            continue;
        }
        if e & 0x1ff != 0 {
            return Err(format!("reftable[{i}] = {e:#x}: reserved bits set"));
        }
        table_ok(&format!("reftable[{i}] = {e:#x}"), e, cs)?;
        add_ref(e, format!("refblock {i}"));
    }

    // l1 / l2
    let l1_bytes = (l1_entries * 8).div_ceil(BS) * BS;
    table_ok("l1 table", l1_off, l1_bytes)?;
    for i in 0..l1_bytes.div_ceil(cs) {
        add_ref(l1_off + (i * cs) as u64, "l1 table".into());
    }
    for i in 0..l1_entries {
        let e = be64(img, l1_off as usize + i * 8);
        if e == 0 {
            continue;
        }
        if e & 0x7f00_0000_0000_01fe != 0 {
            return Err(format!("l1[{i}] = {e:#x}: reserved bits set"));
        }
        let l2_off = e & 0x00ff_ffff_ffff_fe00;
        table_ok(&format!("l1[{i}] = {e:#x}"), l2_off, cs)?;
        add_ref(l2_off, format!("l2 table of l1[{i}]"));

        for j in 0..cs / 8 {
            let l2e = be64(img, l2_off as usize + j * 8);
            if l2e == 0 {
                continue;
            }
            let what = format!("l1[{i}]/l2[{j}] = {l2e:#x}");
            if l2e & (1 << 62) != 0 {
                return Err(format!("{what}: unexpected compressed cluster"));
            }
            if l2e & 0x3f00_0000_0000_01fe != 0 {
                return Err(format!("{what}: reserved bits set"));
            }
            let data_off = l2e & 0x00ff_ffff_ffff_fe00;
            if data_off == 0 {
                continue;
            }
            if data_off & cmask != 0 {
                return Err(format!("{what}: data offset is not cluster aligned"));
            }
            if data_off + cs as u64 > disk {
                return Err(format!("{what}: data offset out of range"));
            }
            add_ref(
                data_off,
                format!("data cluster of guest cluster {}", i * (cs / 8) + j),
            );
        }
    }

    // stored refcount must never be lower than the number of references
    let rb_entries = cs * 8 / 16;
    for (cluster, (cnt, who)) in refs.iter() {
        let rt_idx = *cluster as usize / rb_entries;
        let rb_off = if rt_idx < rt_entries {
            be64(img, rt_off as usize + rt_idx * 8)
        } else {
            0
        };
        let stored = if rb_off == 0 {
            0
        } else {
            let o = rb_off as usize + (*cluster as usize % rb_entries) * 2;
            u16::from_be_bytes(img[o..o + 2].try_into().unwrap()) as u64
        };
        if stored < *cnt {
            let why = if rb_off == 0 {
                format!(" (reftable[{rt_idx}] is 0 on disk)")
            } else {
                String::new()
            };
            return Err(format!(
                "host cluster {:#x} ({who}) is referenced {cnt} time(s) but its stored refcount is {stored}{why}",
                cluster << cluster_bits
            ));
        }
    }

    Ok(())
}

/// clusters which hold meta data in this (consistent) image
fn meta_clusters(img: &[u8], set: &mut BTreeSet<u64>) {
    let cluster_bits = be32(img, 20) as usize;
    let cs = 1usize << cluster_bits;
    let l1_entries = be32(img, 36) as usize;
    let l1_off = be64(img, 40);
    let rt_off = be64(img, 48);
    let rt_clusters = be32(img, 56) as usize;

    set.insert(0);
    for i in 0..rt_clusters {
        set.insert((rt_off >> cluster_bits) + i as u64);
    }
    for i in 0..rt_clusters * cs / 8 {
        let e = be64(img, rt_off as usize + i * 8);
        if e != 0 {
            set.insert(e >> cluster_bits);
        }
    }
    for i in 0..(l1_entries * 8).div_ceil(cs) {
        set.insert((l1_off >> cluster_bits) + i as u64);
    }
    for i in 0..l1_entries {
        let e = be64(img, l1_off as usize + i * 8) & 0x00ff_ffff_ffff_fe00;
        if e != 0 {
            set.insert(e >> cluster_bits);
        }
    }
}

// ---------------------------------------------------------------------------
// crash state exploration
// ---------------------------------------------------------------------------

/// one independently persistable unit
struct Unit {
    req_idx: usize,
    off: usize,
    data: Option<Vec<u8>>, // None: zero range
    len: usize,
    meta: bool,
}

impl Unit {
    fn name(&self) -> String {
        let kind = if self.data.is_some() { "write" } else { "zero" };
        format!("#{} {kind} {:#x}+{}", self.req_idx, self.off, self.len)
    }
}

type Undo = Vec<(usize, Vec<u8>, Vec<bool>)>;

fn apply(img: &mut [u8], init: &mut [bool], u: &Unit, undo: Option<&mut Undo>) {
    if let Some(undo) = undo {
        undo.push((
            u.off,
            img[u.off..u.off + u.len].to_vec(),
            init[u.off / BS..(u.off + u.len) / BS].to_vec(),
        ));
    }
    match &u.data {
        Some(d) => img[u.off..u.off + u.len].copy_from_slice(d),
        None => img[u.off..u.off + u.len].fill(0),
    }
    init[u.off / BS..(u.off + u.len) / BS].fill(true);
}

fn revert(img: &mut [u8], init: &mut [bool], undo: Undo) {
    for (off, bytes, ini) in undo.into_iter().rev() {
        img[off..off + bytes.len()].copy_from_slice(&bytes);
        init[off / BS..off / BS + ini.len()].copy_from_slice(&ini);
    }
}

struct Failure {
    req_idx: usize,
    msg: String,
}

struct Report {
    failures: Vec<Failure>,
    checked: usize,
}

fn req_name(log: &[Req], i: usize) -> String {
    match &log[i] {
        Req::Write { off, data } => format!("#{i} write {off:#x}+{}", data.len()),
        Req::Zero { off, len } => format!("#{i} zero {off:#x}+{len}"),
        Req::Fsync => format!("#{i} fsync"),
    }
}

/// Replay the request log and check crash states. Reports the first unsafe
/// crash state found for every request (crash point), at most `max_fail`.
fn explore(
    initial: &[u8],
    init0: &[bool],
    log: &[Req],
    final_img: &[u8],
    max_fail: usize,
) -> Report {
    let cluster_bits = be32(initial, 20) as usize;
    let mut meta = BTreeSet::new();
    meta_clusters(initial, &mut meta);
    meta_clusters(final_img, &mut meta);
    let is_meta = |off: usize, len: usize| -> bool {
        let first = (off >> cluster_bits) as u64;
        let last = ((off + len - 1) >> cluster_bits) as u64;
        (first..=last).any(|c| meta.contains(&c))
    };

    let mut img = initial.to_vec();
    let mut init = init0.to_vec();
    let mut pending: Vec<Unit> = Vec::new();
    let mut rep = Report {
        failures: Vec::new(),
        checked: 1,
    };

    if let Err(e) = check_image(&img, &init) {
        rep.failures.push(Failure {
            req_idx: 0,
            msg: format!("initial image: {e}"),
        });
        return rep;
    }

    for (idx, req) in log.iter().enumerate() {
        if rep.failures.len() >= max_fail {
            break;
        }
        match req {
            Req::Fsync => {
                for u in pending.drain(..) {
                    apply(&mut img, &mut init, &u, None);
                }
                rep.checked += 1;
                if let Err(e) = check_image(&img, &init) {
                    rep.failures.push(Failure {
                        req_idx: idx,
                        msg: format!(
                            "after {} completed (everything durable): {e}",
                            req_name(log, idx)
                        ),
                    });
                }
                continue;
            }
            Req::Zero { off, len } => pending.push(Unit {
                req_idx: idx,
                off: *off as usize,
                data: None,
                len: *len,
                meta: is_meta(*off as usize, *len),
            }),
            Req::Write { off, data } => {
                if data.len() <= 4096 {
                    // meta data sized write: may be torn at block granularity
                    for (b, chunk) in data.chunks(BS).enumerate() {
                        let o = *off as usize + b * BS;
                        let overlaps_pending =
                            pending.iter().any(|u| u.off < o + BS && o < u.off + u.len);
                        if !overlaps_pending && img[o..o + BS] == *chunk && init[o / BS] {
                            // nothing changes no matter if it is persisted
                            continue;
                        }
                        pending.push(Unit {
                            req_idx: idx,
                            off: o,
                            data: Some(chunk.to_vec()),
                            len: BS,
                            meta: is_meta(o, BS),
                        });
                    }
                } else {
                    pending.push(Unit {
                        req_idx: idx,
                        off: *off as usize,
                        data: Some(data.clone()),
                        len: data.len(),
                        meta: is_meta(*off as usize, data.len()),
                    });
                }
            }
        }

        // Crash right after this request was issued. Subsets without any
        // unit of the newest request were covered by the previous prefix;
        // data-only requests do not change what the checker looks at.
        let m: Vec<usize> = (0..pending.len()).filter(|i| pending[*i].meta).collect();
        let d: Vec<usize> = (0..pending.len()).filter(|i| !pending[*i].meta).collect();
        let newest: Vec<usize> = m
            .iter()
            .copied()
            .filter(|i| pending[*i].req_idx == idx)
            .collect();
        if newest.is_empty() {
            continue;
        }

        let mut sets: Vec<Vec<usize>> = Vec::new();
        if m.len() <= 12 {
            for mask in 0..(1u32 << m.len()) {
                let s: Vec<usize> = (0..m.len())
                    .filter(|b| mask & (1 << b) != 0)
                    .map(|b| m[b])
                    .collect();
                if s.iter().any(|i| pending[*i].req_idx == idx) {
                    sets.push(s);
                }
            }
        } else {
            let others: Vec<usize> = m
                .iter()
                .copied()
                .filter(|i| pending[*i].req_idx != idx)
                .collect();
            let other_reqs: BTreeSet<usize> = others.iter().map(|i| pending[*i].req_idx).collect();
            sets.push(m.clone());
            sets.push(newest.clone());
            for r in other_reqs {
                // newest request + one older request
                let mut s: Vec<usize> = others
                    .iter()
                    .copied()
                    .filter(|i| pending[*i].req_idx == r)
                    .collect();
                s.extend(newest.iter());
                sets.push(s);
                // everything except one older request
                sets.push(
                    m.iter()
                        .copied()
                        .filter(|i| pending[*i].req_idx != r)
                        .collect(),
                );
            }
            for u in &newest {
                sets.push(vec![*u]);
                sets.push(m.iter().copied().filter(|i| i != u).collect());
            }
        }

        'sets: for s in sets {
            for with_data in [false, true] {
                if with_data && d.is_empty() {
                    continue;
                }
                let mut undo = Undo::new();
                // request order is kept: pending is ordered by issue time
                let mut chosen: Vec<usize> = s.clone();
                if with_data {
                    chosen.extend(d.iter());
                }
                chosen.sort();
                for i in &chosen {
                    apply(&mut img, &mut init, &pending[*i], Some(&mut undo));
                }
                rep.checked += 1;
                let res = check_image(&img, &init);
                revert(&mut img, &mut init, undo);

                if let Err(e) = res {
                    let persisted: Vec<String> = s.iter().map(|i| pending[*i].name()).collect();
                    let lost: Vec<String> = m
                        .iter()
                        .filter(|i| !s.contains(i))
                        .map(|i| pending[*i].name())
                        .collect();
                    rep.failures.push(Failure {
                        req_idx: idx,
                        msg: format!(
                            "crash after request {}:\n      persisted: {persisted:?}\n      lost:      {lost:?}\n      data units ({} un-synced): {}\n      checker:   {e}",
                            req_name(log, idx),
                            d.len(),
                            if with_data { "all persisted" } else { "all lost" },
                        ),
                    });
                    break 'sets;
                }
            }
        }
    }

    rep
}

/// print the request log, runs of data-only requests collapsed
fn dump_log(initial: &[u8], final_img: &[u8], log: &[Req]) {
    let cluster_bits = be32(initial, 20) as usize;
    let mut meta = BTreeSet::new();
    meta_clusters(initial, &mut meta);
    meta_clusters(final_img, &mut meta);
    let mut data_run = 0usize;
    for (i, r) in log.iter().enumerate() {
        let (off, len) = match r {
            Req::Write { off, data } => (*off as usize, data.len()),
            Req::Zero { off, len } => (*off as usize, *len),
            Req::Fsync => (0, 0),
        };
        let is_data = len != 0
            && !((off >> cluster_bits) as u64..=((off + len - 1) >> cluster_bits) as u64)
                .any(|c| meta.contains(&c));
        if is_data {
            data_run += 1;
            continue;
        }
        if data_run > 0 {
            eprintln!("    ... {data_run} data cluster request(s) ...");
            data_run = 0;
        }
        eprintln!("    {}", req_name(log, i));
    }
    if data_run > 0 {
        eprintln!("    ... {data_run} data cluster request(s) ...");
    }
}

/// explore and panic with a full report if any crash state is unsafe
fn assert_all_crash_states_safe(
    name: &str,
    initial: &[u8],
    init0: &[bool],
    io: &MemIo,
    expect_final_ok: bool,
) {
    let log = io.log();
    let final_img = io.bytes();
    let final_init = io.init_map();

    let final_res = check_image(&final_img, &final_init);
    if expect_final_ok {
        // the final (everything persisted) state has to be fine
        final_res
            .as_ref()
            .unwrap_or_else(|e| panic!("{name}: final image is bad: {e}"));
    }

    let rep = explore(initial, init0, &log, &final_img, 4);
    eprintln!(
        "{name}: requests {} crash states checked {} unsafe crash points reported {}",
        log.len(),
        rep.checked,
        rep.failures.len()
    );
    if rep.failures.is_empty() && std::env::var("TRIAGE_DUMP").is_ok() {
        eprintln!("{name}: request log of the explored phase:");
        dump_log(initial, &final_img, &log);
    }
    if !rep.failures.is_empty() {
        eprintln!("{name}: request log of the explored phase:");
        dump_log(initial, &final_img, &log);
        for f in &rep.failures {
            eprintln!("{name}: UNSAFE [{}] {}", f.req_idx, f.msg);
        }
        panic!(
            "{name}: unsafe crash image: {}",
            rep.failures[0].msg.replace('\n', " ")
        );
    }
    if let Err(e) = final_res {
        panic!("{name}: final image is bad: {e}");
    }
}

// ---------------------------------------------------------------------------
// helpers
// ---------------------------------------------------------------------------

fn runtime() -> tokio::runtime::Runtime {
    tokio::runtime::Builder::new_current_thread()
        .enable_all()
        .build()
        .unwrap()
}

async fn open(io: &MemIo, name: &str, params: &Qcow2DevParams) -> Qcow2Dev<MemIo> {
    let (dev, _) = qcow2_alloc_dev(Path::new(name), io.clone(), params)
        .await
        .unwrap();
    dev.qcow2_prep_io().await.unwrap();
    dev
}

async fn host_off(dev: &Qcow2Dev<MemIo>, guest: u64) -> u64 {
    dev.get_mapping(guest)
        .await
        .unwrap()
        .cluster_offset
        .expect("cluster must be mapped")
}

/// write one block (512 bytes) at the start of guest cluster `g`, which
/// allocates the whole cluster
async fn touch_cluster(dev: &Qcow2Dev<MemIo>, cluster_bits: usize, g: u64, pat: u8) -> u64 {
    let buf = vec![pat; BS];
    dev.write_at(&buf, g << cluster_bits).await.unwrap();
    host_off(dev, g << cluster_bits).await
}

async fn sync_all(dev: &Qcow2Dev<MemIo>) {
    dev.flush_meta().await.unwrap();
    dev.fsync_range(0, usize::MAX).await.unwrap();
}

// ---------------------------------------------------------------------------
// G1: eviction write-back of refcount slices has no barrier
// ---------------------------------------------------------------------------

/// write-only history: 512 byte clusters (one refblock covers 128KB of host
/// space, one 512 byte reftable block covers 64 refblocks = 8MB), refblock
/// cache of two slices. Allocation walks from refblock 62 into the NEW
/// refblocks 63 (reftable block 0), 64 and 65 (reftable block 1). Adding
/// refblock 65 evicts the dirty slice of the new refblock 63, which is zeroed
/// + written without barrier; flush_meta() then finds no dirty slice below
/// reftable block 0 and writes it without fsync.
#[test]
fn g1_refblock_eviction_then_reftable_write_has_no_barrier() {
    const CB: usize = 9;
    const RB_ENTRIES: u64 = 256; // 512 * 8 / 16
    let virt_size = 16u64 << 20;
    let io = make_disk(9 << 20, virt_size, CB, None);

    let (initial, init0) = runtime().block_on(async {
        let params = Qcow2DevParams::new(9, Some((9, 2 * 512)), Some((9, 2048 * 512)), false, false);
        let dev = open(&io, "mem-g1", &params).await;

        // phase 1 (not explored): fill the host space up to the end of refblock 62
        let target = (63 * RB_ENTRIES - 8) << CB;
        let mut g = 0u64;
        loop {
            let h = touch_cluster(&dev, CB, g, 0x11).await;
            g += 1;
            if h >= target {
                break;
            }
        }
        sync_all(&dev).await;
        let cp = io.checkpoint();

        // phase 2: walk into refblock 63, 64, 65
        let target = (65 * RB_ENTRIES + 8) << CB;
        loop {
            let h = touch_cluster(&dev, CB, g, 0x22).await;
            g += 1;
            if h >= target {
                break;
            }
        }
        sync_all(&dev).await;
        eprintln!("g1: guest clusters written {g}");
        cp
    });

    assert_all_crash_states_safe("g1", &initial, &init0, &io, true);
}

/// Same gap, 4KB clusters and the public check() API as the thing which
/// pushes the dirty slice of the new refblock out of the two-slice cache:
/// check() only loads refblock slices (clean), so when it returns nothing is
/// dirty any more and flush_meta() writes the reftable block without fsync.
#[test]
fn g1b_refblock_eviction_by_check_then_reftable_write_has_no_barrier() {
    const CB: usize = 12;
    const RB_ENTRIES: u64 = 2048;
    let virt_size = 64u64 << 20;
    let io = make_disk(10 << 20, virt_size, CB, None);

    let (initial, init0) = runtime().block_on(async {
        let params = Qcow2DevParams::new(9, Some((9, 2 * 512)), None, false, false);
        let dev = open(&io, "mem-g1b", &params).await;

        let target = (RB_ENTRIES - 8) << CB;
        let mut g = 0u64;
        loop {
            let h = touch_cluster(&dev, CB, g, 0x11).await;
            g += 1;
            if h >= target {
                break;
            }
        }
        sync_all(&dev).await;
        let cp = io.checkpoint();

        // enter the new refblock 1
        for _ in 0..16 {
            touch_cluster(&dev, CB, g, 0x22).await;
            g += 1;
        }
        let res = dev.check().await;
        eprintln!("g1b: check() -> {res:?}");
        sync_all(&dev).await;
        cp
    });

    assert_all_crash_states_safe("g1b", &initial, &init0, &io, true);
}

/// Second face of the same gap, no new refblock needed: the evicted dirty
/// refblock slice (allocations of phase 2) is written without barrier, nothing
/// is dirty in the refcount phase of flush_meta() (so no fsync), and the L2
/// slice of an already linked L2 table is written in the same epoch.
#[test]
fn g1c_refblock_eviction_then_l2_slice_write_has_no_barrier() {
    const CB: usize = 12;
    let virt_size = 64u64 << 20;
    let io = make_disk(10 << 20, virt_size, CB, None);

    let (initial, init0) = runtime().block_on(async {
        let params = Qcow2DevParams::new(9, Some((9, 2 * 512)), None, false, false);
        let dev = open(&io, "mem-g1c", &params).await;

        touch_cluster(&dev, CB, 0, 0x11).await;
        sync_all(&dev).await;
        let cp = io.checkpoint();

        for g in 1..5 {
            touch_cluster(&dev, CB, g, 0x22).await;
        }
        let res = dev.check().await;
        eprintln!("g1c: check() -> {res:?}");
        sync_all(&dev).await;
        cp
    });

    assert_all_crash_states_safe("g1c", &initial, &init0, &io, true);
}

/// control for G1 exactly as described in the task: 4KB clusters, two-slice
/// refblock cache, writes only; allocation enters the new refblock 1 and
/// walks through its slices 0, 1, 2 so the dirty slice 0 of the new refblock
/// is evicted (zeroed + written without barrier) before flush_meta().
#[test]
fn g1_control_writes_only_4k_clusters() {
    const CB: usize = 12;
    const RB_ENTRIES: u64 = 2048;
    let virt_size = 64u64 << 20;
    let io = make_disk(12 << 20, virt_size, CB, None);

    let (initial, init0) = runtime().block_on(async {
        let params = Qcow2DevParams::new(9, Some((9, 2 * 512)), None, false, false);
        let dev = open(&io, "mem-g1ctl", &params).await;

        let target = (RB_ENTRIES - 8) << CB;
        let mut g = 0u64;
        loop {
            let h = touch_cluster(&dev, CB, g, 0x11).await;
            g += 1;
            if h >= target {
                break;
            }
        }
        sync_all(&dev).await;
        let cp = io.checkpoint();

        // only use l2 tables which are not linked on disk yet, so G3 (l2
        // slice of a linked table in the epoch of the reftable block) can
        // not show up here
        g = (g / 512 + 1) * 512;
        // a 512 byte slice covers 256 host clusters
        let target = (RB_ENTRIES + 2 * 256 + 8) << CB;
        loop {
            let h = touch_cluster(&dev, CB, g, 0x22).await;
            g += 1;
            if h >= target {
                break;
            }
        }
        sync_all(&dev).await;
        cp
    });

    assert_all_crash_states_safe("g1-control", &initial, &init0, &io, true);
}

// ---------------------------------------------------------------------------
// G2: eviction write-back of L2 slices has no barrier
// ---------------------------------------------------------------------------

/// L2 cache of two 512 byte slices, fresh image: two writes create a NEW L2
/// table (L1 entry dirty in RAM only) with two dirty slices. Lookups in three
/// more slices of the same table (reads) evict the dirty slices: the new L2
/// cluster is zeroed and the slices are written without barrier; flush_meta()
/// then finds no dirty slice below the dirty L1 block and writes it without
/// fsync.
#[test]
fn g2_l2_eviction_then_l1_write_has_no_barrier() {
    const CB: usize = 16;
    let virt_size = 64u64 << 20;
    let slice_span = 64u64 << CB; // 512 byte slice = 64 entries = 4MB
    let io = make_disk(4 << 20, virt_size, CB, None);
    let (initial, init0) = io.checkpoint();

    runtime().block_on(async {
        let params = Qcow2DevParams::new(9, None, Some((9, 2 * 512)), false, false);
        let dev = open(&io, "mem-g2", &params).await;

        // two dirty slices of a new l2 table
        for k in 0..2u64 {
            let buf = vec![0x30 + k as u8; BS];
            dev.write_at(&buf, k * slice_span).await.unwrap();
        }
        // look into three more slices of the same table
        for k in 2..5u64 {
            let mut buf = vec![0u8; BS];
            dev.read_at(&mut buf, k * slice_span).await.unwrap();
            assert!(buf.iter().all(|b| *b == 0));
        }
        sync_all(&dev).await;

        for k in 0..2u64 {
            let mut buf = vec![0u8; BS];
            dev.read_at(&mut buf, k * slice_span).await.unwrap();
            assert!(buf.iter().all(|b| *b == 0x30 + k as u8));
        }
    });

    assert_all_crash_states_safe("g2", &initial, &init0, &io, true);
}

/// control for G2 exactly as described in the task (writes only into many
/// slices of a new l2 table, then flush_meta)
#[test]
fn g2_control_writes_only_into_many_slices_of_new_l2_table() {
    const CB: usize = 16;
    let virt_size = 64u64 << 20;
    let slice_span = 64u64 << CB;
    let io = make_disk(4 << 20, virt_size, CB, None);
    let (initial, init0) = io.checkpoint();

    runtime().block_on(async {
        let params = Qcow2DevParams::new(9, None, Some((9, 2 * 512)), false, false);
        let dev = open(&io, "mem-g2c", &params).await;
        for k in 0..6u64 {
            let buf = vec![0x30 + k as u8; BS];
            dev.write_at(&buf, k * slice_span).await.unwrap();
        }
        sync_all(&dev).await;
    });

    assert_all_crash_states_safe("g2-control", &initial, &init0, &io, true);
}

// ---------------------------------------------------------------------------
// G3: reftable block and mappings in one epoch
// ---------------------------------------------------------------------------

/// 64MB image, 4KB clusters, default caches. Phase 1 fills the host file up
/// to just below 8MB (end of refblock 0) and makes it durable. Phase 2 writes
/// 16 more clusters through an L2 table which is already linked on disk; the
/// allocations enter the new refblock 1. flush_meta() writes the reftable
/// block last in flush_refcount() without a following fsync and then writes
/// the L2 slice in the same epoch.
#[test]
fn g3_reftable_block_and_l2_slice_in_one_epoch() {
    const CB: usize = 12;
    const RB_ENTRIES: u64 = 2048;
    let virt_size = 64u64 << 20;
    let io = make_disk(10 << 20, virt_size, CB, None);

    let (initial, init0) = runtime().block_on(async {
        let params = Qcow2DevParams::new(9, None, None, false, false);
        let dev = open(&io, "mem-g3", &params).await;

        // link the l2 table used by phase 2 (guest 16MB.., l1[8]) on disk
        const P2: u64 = 4096;
        touch_cluster(&dev, CB, P2, 0x11).await;

        let target = (RB_ENTRIES - 8) << CB;
        let mut g = 0u64;
        loop {
            let h = touch_cluster(&dev, CB, g, 0x11).await;
            g += 1;
            if h >= target {
                break;
            }
        }
        assert!(g < P2);
        sync_all(&dev).await;
        let cp = io.checkpoint();

        // phase 2 stays in the l2 table of l1[8] (2MB of guest space per table)
        let mut last = 0;
        for k in 1..=16 {
            last = touch_cluster(&dev, CB, P2 + k, 0x22).await;
        }
        assert!(last > RB_ENTRIES << CB, "allocation did not enter refblock 1");
        sync_all(&dev).await;
        cp
    });

    assert_all_crash_states_safe("g3", &initial, &init0, &io, true);
}

// ---------------------------------------------------------------------------
// G4: discard frees before the unmapping is durable
// ---------------------------------------------------------------------------

#[test]
fn g4_discard_refcount_drop_is_durable_before_the_unmapping() {
    const CB: usize = 16;
    let virt_size = 64u64 << 20;
    let io = make_disk(4 << 20, virt_size, CB, None);

    let (initial, init0) = runtime().block_on(async {
        let params = Qcow2DevParams::new(9, None, None, false, false);
        let dev = open(&io, "mem-g4", &params).await;

        let buf = vec![0x44u8; 1 << CB];
        dev.write_at(&buf, 0).await.unwrap();
        dev.write_at(&buf, 1 << CB).await.unwrap();
        sync_all(&dev).await;
        let cp = io.checkpoint();

        dev.discard(0, 1 << CB).await.unwrap();
        sync_all(&dev).await;
        cp
    });

    assert_all_crash_states_safe("g4", &initial, &init0, &io, true);
}

// ---------------------------------------------------------------------------
// G5: copy-on-write writes its L2 slice directly
// ---------------------------------------------------------------------------

const G5_CB: usize = 16;
const G5_CLUSTER: usize = 1 << G5_CB;
const G5_VSIZE: u64 = 64 << 20;

fn backing_pattern(cluster: u64) -> Vec<u8> {
    vec![0xB0 + cluster as u8; G5_CLUSTER]
}

/// Build the backing image through the library: clusters 0..4 hold patterns
async fn make_backing_bytes() -> Vec<u8> {
    let size = 4usize << 20;
    let mut img = vec![0u8; size];
    Qcow2Header::format_qcow2(&mut img[..4 * G5_CLUSTER], G5_VSIZE, G5_CB, 4, BS).unwrap();
    let io = MemIo::new(img, vec![true; size / BS]);
    let params = Qcow2DevParams::new(9, None, None, false, false);
    let dev = open(&io, "mem-backing", &params).await;
    for c in 0..4u64 {
        dev.write_at(&backing_pattern(c), c * G5_CLUSTER as u64)
            .await
            .unwrap();
    }
    dev.flush_meta().await.unwrap();
    io.bytes()
}

async fn open_overlay(
    top: &MemIo,
    backing_bytes: Vec<u8>,
    l2_cache: Option<(u8, usize)>,
) -> Qcow2Dev<MemIo> {
    let params = Qcow2DevParams::new(9, None, l2_cache, false, false);
    let (mut dev, back) = qcow2_alloc_dev(Path::new("mem-top"), top.clone(), &params)
        .await
        .unwrap();
    assert!(back.is_some(), "overlay must name a backing file");

    let mut bp = Qcow2DevParams::new(9, None, None, false, false);
    bp.mark_backing_dev(Some(true));
    let n = backing_bytes.len();
    let (bdev, _) = qcow2_alloc_dev(
        Path::new("mem-backing"),
        MemIo::new(backing_bytes, vec![true; n / BS]),
        &bp,
    )
    .await
    .unwrap();
    dev.set_backing_dev(Box::new(bdev));
    dev.qcow2_prep_io().await.unwrap();
    dev
}

/// (a) ordering only: the L2 slice covers the whole L2 table (64KB slices),
/// so the direct slice write initialises the complete new L2 cluster. The L1
/// block is written by flush_meta() without a barrier after that write.
#[test]
fn g5a_cow_l2_slice_write_then_l1_write_has_no_barrier() {
    let io = make_disk(4 << 20, G5_VSIZE, G5_CB, Some("mem-backing"));
    let (initial, init0) = io.checkpoint();

    runtime().block_on(async {
        let backing = make_backing_bytes().await;
        let dev = open_overlay(&io, backing, Some((16, 2 * G5_CLUSTER))).await;

        let buf = vec![0xAAu8; G5_CLUSTER];
        dev.write_at(&buf, 0).await.unwrap();
        sync_all(&dev).await;
    });

    assert_all_crash_states_safe("g5a", &initial, &init0, &io, true);
}

/// (a') default 4KB slices: additionally the rest of the new L2 cluster is
/// never zeroed by the COW path, so even the final, fully synced image has an
/// L1 entry which targets a partly uninitialised L2 table.
#[test]
fn g5a2_cow_into_new_l2_table_default_slices() {
    let io = make_disk(4 << 20, G5_VSIZE, G5_CB, Some("mem-backing"));
    let (initial, init0) = io.checkpoint();

    runtime().block_on(async {
        let backing = make_backing_bytes().await;
        let dev = open_overlay(&io, backing, None).await;

        let buf = vec![0xAAu8; G5_CLUSTER];
        dev.write_at(&buf, 0).await.unwrap();
        sync_all(&dev).await;
    });

    assert_all_crash_states_safe("g5a2", &initial, &init0, &io, false);
}

/// (b) not a crash case: COW write into a NEW L2 table, then touch a sibling
/// slice of that table, flush_meta, reopen: the COW written data is gone.
#[test]
fn g5b_cow_written_slice_is_destroyed_by_sibling_slice_flush() {
    let io = make_disk(4 << 20, G5_VSIZE, G5_CB, Some("mem-backing"));

    runtime().block_on(async {
        let backing = make_backing_bytes().await;
        let dev = open_overlay(&io, backing.clone(), None).await;

        let pat = vec![0xAAu8; G5_CLUSTER];
        dev.write_at(&pat, 0).await.unwrap();

        // sibling slice of the same l2 table: 4KB slice = 512 entries = 32MB
        let mut rbuf = vec![0u8; BS];
        dev.read_at(&mut rbuf, 32 << 20).await.unwrap();

        let mut now = vec![0u8; G5_CLUSTER];
        dev.read_at(&mut now, 0).await.unwrap();
        assert_eq!(now, pat, "data must be visible before the flush");

        io.checkpoint(); // restart the request log
        sync_all(&dev).await;
        eprintln!("g5b: requests issued by flush_meta + fsync:");
        for (i, _) in io.log().iter().enumerate() {
            eprintln!("    {}", req_name(&io.log(), i));
        }

        let mut now = vec![0u8; G5_CLUSTER];
        dev.read_at(&mut now, 0).await.unwrap();
        eprintln!(
            "g5b: same device after flush_meta reads {:#x} at guest offset 0",
            now[0]
        );

        // reopen from the bytes on "disk"
        let bytes = io.bytes();
        let n = bytes.len();
        drop(dev);
        let io2 = MemIo::new(bytes, vec![true; n / BS]);
        let dev2 = open_overlay(&io2, backing, None).await;
        let mut after = vec![0u8; G5_CLUSTER];
        dev2.read_at(&mut after, 0).await.unwrap();
        let m = dev2.get_mapping(0).await.unwrap();
        eprintln!(
            "g5b: after reopen guest offset 0 reads {:#x}, mapping {m}",
            after[0]
        );
        assert!(
            after == pat,
            "acknowledged + flushed COW write lost: guest offset 0 reads {:#x} after flush_meta + reopen (backing pattern is {:#x}, written {:#x})",
            after[0],
            backing_pattern(0)[0],
            pat[0]
        );
    });
}

//! C17 triage: backend faults during meta-data write-back.
//!
//! Property: if the backend fails a request, the affected API call returns
//! Err without panicking and the device stays usable.  Once the backend
//! works again, repeating flush_meta() until Ok brings the file to a state
//! in which every acknowledged write is readable after reopen and no
//! cluster in use is under-counted (leaks are the only permitted residue).
//!
//! Every test below asserts that property on the UNMODIFIED library, so a
//! failing test == reproduced defect.  All violations found in one history
//! are collected and printed before the final assert.

use qcow2_rs::dev::{Qcow2Dev, Qcow2DevParams};
use qcow2_rs::error::Qcow2Result;
use qcow2_rs::meta::{MappingSource, Qcow2Header};
use qcow2_rs::ops::Qcow2IoOps;
use qcow2_rs::utils::qcow2_alloc_dev;
use std::cell::RefCell;
use std::path::PathBuf;
use std::rc::Rc;

// ---------------------------------------------------------------------
// in-memory backend with fault injection
// ---------------------------------------------------------------------

#[derive(Clone, Copy, PartialEq, Debug)]
enum Kind {
    Read,
    Write,
    Punch,
    Fsync,
}

/// fail requests of `kind` whose offset is in [lo, hi) (and whose length is
/// `len`, if given): the first `skip` matches pass, the next `remaining`
/// matches fail.
#[derive(Clone, Debug)]
struct Rule {
    kind: Kind,
    lo: u64,
    hi: u64,
    len: Option<usize>,
    skip: usize,
    remaining: usize,
}

impl Rule {
    fn once(kind: Kind, lo: u64, hi: u64) -> Rule {
        Rule {
            kind,
            lo,
            hi,
            len: None,
            skip: 0,
            remaining: 1,
        }
    }
}

#[derive(Default)]
struct Inner {
    data: Vec<u8>,
    /// number of requests seen since the last `arm_kth`/`clear_log`
    counter: usize,
    /// fail the request with this index
    fail_at: Option<usize>,
    rules: Vec<Rule>,
    log: Vec<String>,
    faults_hit: usize,
}

#[derive(Clone, Default)]
struct MemIo(Rc<RefCell<Inner>>);

impl MemIo {
    fn from_bytes(data: Vec<u8>) -> Self {
        MemIo(Rc::new(RefCell::new(Inner {
            data,
            ..Default::default()
        })))
    }
    fn clear_log(&self) {
        let mut i = self.0.borrow_mut();
        i.counter = 0;
        i.log.clear();
        i.faults_hit = 0;
    }
    fn arm_kth(&self, k: usize) {
        self.clear_log();
        self.0.borrow_mut().fail_at = Some(k);
    }
    fn arm_rules(&self, rules: Vec<Rule>) {
        self.clear_log();
        self.0.borrow_mut().rules = rules;
    }
    /// backend is healthy again
    fn disarm(&self) {
        let mut i = self.0.borrow_mut();
        i.fail_at = None;
        i.rules.clear();
    }
    fn snapshot(&self) -> Vec<u8> {
        self.0.borrow().data.clone()
    }
    fn log(&self) -> Vec<String> {
        self.0.borrow().log.clone()
    }
    fn faults_hit(&self) -> usize {
        self.0.borrow().faults_hit
    }
    fn nr_requests(&self) -> usize {
        self.0.borrow().counter
    }
    fn tick(&self, kind: Kind, off: u64, len: usize) -> Qcow2Result<()> {
        let mut i = self.0.borrow_mut();
        let idx = i.counter;
        i.counter += 1;
        let what = match kind {
            Kind::Fsync => "fsync".to_string(),
            _ => format!("{kind:?} {off:x}+{len}").to_lowercase(),
        };
        let mut fail = i.fail_at == Some(idx);
        for r in i.rules.iter_mut() {
            if r.kind == kind
                && (kind == Kind::Fsync || (off >= r.lo && off < r.hi))
                && r.len.map(|l| l == len).unwrap_or(true)
            {
                if r.skip > 0 {
                    r.skip -= 1;
                } else if r.remaining > 0 {
                    r.remaining -= 1;
                    fail = true;
                }
            }
        }
        if fail {
            i.faults_hit += 1;
            i.log.push(format!("{what} -> EIO"));
            return Err("injected I/O error".into());
        }
        i.log.push(what);
        Ok(())
    }
}

impl Qcow2IoOps for MemIo {
    async fn read_to(&self, offset: u64, buf: &mut [u8]) -> Qcow2Result<usize> {
        self.tick(Kind::Read, offset, buf.len())?;
        let i = self.0.borrow();
        let off = offset as usize;
        let avail = i.data.len().saturating_sub(off).min(buf.len());
        buf[..avail].copy_from_slice(&i.data[off..off + avail]);
        buf[avail..].fill(0);
        Ok(buf.len())
    }

    async fn write_from(&self, offset: u64, buf: &[u8]) -> Qcow2Result<()> {
        self.tick(Kind::Write, offset, buf.len())?;
        let mut i = self.0.borrow_mut();
        let off = offset as usize;
        if i.data.len() < off + buf.len() {
            i.data.resize(off + buf.len(), 0);
        }
        i.data[off..off + buf.len()].copy_from_slice(buf);
        Ok(())
    }

    async fn fallocate(&self, offset: u64, len: usize, _flags: u32) -> Qcow2Result<()> {
        self.tick(Kind::Punch, offset, len)?;
        let mut i = self.0.borrow_mut();
        let off = offset as usize;
        if i.data.len() < off + len {
            i.data.resize(off + len, 0);
        }
        i.data[off..off + len].fill(0);
        Ok(())
    }

    async fn fsync(&self, _offset: u64, _len: usize, _flags: u32) -> Qcow2Result<()> {
        self.tick(Kind::Fsync, 0, 0)
    }
}

// ---------------------------------------------------------------------
// image helpers
// ---------------------------------------------------------------------

#[derive(Clone, Copy)]
struct Geo {
    cb: usize,
    vsize: u64,
}

impl Geo {
    fn cs(&self) -> usize {
        1 << self.cb
    }
    fn csu(&self) -> u64 {
        1 << self.cb
    }
}

fn params(rb: Option<(u8, usize)>, l2: Option<(u8, usize)>) -> Qcow2DevParams {
    Qcow2DevParams::new(9, rb, l2, false, false)
}

fn format_image(g: Geo) -> Vec<u8> {
    let mut buf = vec![0u8; 4 * g.cs()];
    Qcow2Header::format_qcow2(&mut buf, g.vsize, g.cb, 4, 512).unwrap();
    buf
}

async fn open(io: MemIo, p: &Qcow2DevParams) -> Qcow2Dev<MemIo> {
    let (dev, back) = qcow2_alloc_dev(&PathBuf::from("mem"), io, p).await.unwrap();
    assert!(back.is_none());
    dev.qcow2_prep_io().await.unwrap();
    dev
}

fn be64(img: &[u8], off: usize) -> u64 {
    if off + 8 > img.len() {
        return 0;
    }
    u64::from_be_bytes(img[off..off + 8].try_into().unwrap())
}

fn disk_l1_off(img: &[u8]) -> u64 {
    be64(img, 40)
}
fn disk_rt_off(img: &[u8]) -> u64 {
    be64(img, 48)
}
/// L1 entry `idx` as stored in the image bytes (offset part only)
fn disk_l1_entry(img: &[u8], idx: usize) -> u64 {
    be64(img, disk_l1_off(img) as usize + idx * 8) & 0x00ff_ffff_ffff_fe00
}
fn disk_rt_entry(img: &[u8], idx: usize) -> u64 {
    be64(img, disk_rt_off(img) as usize + idx * 8)
}

/// refcount (16 bit entries) of `host_off` as stored in the image bytes
fn disk_refcount(img: &[u8], g: Geo, host_off: u64) -> u16 {
    let rb_entries = (g.cs() * 8 / 16) as u64;
    let cls = host_off >> g.cb;
    let rt_idx = (cls / rb_entries) as usize;
    let rb_idx = (cls % rb_entries) as usize;
    let rb_off = disk_rt_entry(img, rt_idx) as usize;
    if rb_off == 0 {
        return 0;
    }
    let p = rb_off + rb_idx * 2;
    if p + 2 > img.len() {
        return 0;
    }
    u16::from_be_bytes(img[p..p + 2].try_into().unwrap())
}

fn describe(buf: &[u8]) -> String {
    if buf.iter().all(|b| *b == buf[0]) {
        format!("all {:#04x}", buf[0])
    } else {
        format!("mixed, first bytes {:02x?}", &buf[..8])
    }
}

/// acknowledged write: guest range [off, off+len) filled with `pat`
#[derive(Clone, Copy)]
struct Ack {
    off: u64,
    len: usize,
    pat: u8,
}

async fn write_pat(dev: &Qcow2Dev<MemIo>, off: u64, len: usize, pat: u8) -> Qcow2Result<()> {
    dev.write_at(&vec![pat; len], off).await
}

async fn flush_until_ok(dev: &Qcow2Dev<MemIo>, tag: &str) -> usize {
    for n in 1..=8 {
        match dev.flush_meta().await {
            Ok(()) => {
                println!("{tag}: healthy backend: flush_meta attempt {n} -> Ok");
                return n;
            }
            Err(e) => println!("{tag}: healthy backend: flush_meta attempt {n} -> Err({e:?})"),
        }
    }
    panic!("{tag}: flush_meta never succeeded on a healthy backend");
}

/// Check on `dev` (backed by the bytes `img`) that every acknowledged write
/// is readable and no mapped cluster has refcount 0 on disk.
async fn verify(
    dev: &Qcow2Dev<MemIo>,
    img: &[u8],
    g: Geo,
    acks: &[Ack],
    tag: &str,
    viol: &mut Vec<String>,
) {
    for a in acks {
        let mut lost = Vec::new();
        let mut under = Vec::new();
        let mut off = a.off;
        while off < a.off + a.len as u64 {
            match dev.get_mapping(off).await {
                Ok(m) => {
                    if m.source == MappingSource::DataFile {
                        let host = m.cluster_offset.unwrap();
                        if disk_refcount(img, g, host) == 0 {
                            under.push(format!("guest {off:#x} -> host {host:#x} refcount 0"));
                        }
                    }
                }
                Err(e) => lost.push(format!("guest {off:#x}: get_mapping Err({e:?})")),
            }
            let mut buf = vec![0x5Au8; g.cs()];
            match dev.read_at(&mut buf, off).await {
                Ok(_) => {
                    if buf.iter().any(|b| *b != a.pat) {
                        lost.push(format!(
                            "guest {off:#x}: wrote all {:#04x}, reads {}",
                            a.pat,
                            describe(&buf)
                        ));
                    }
                }
                Err(e) => lost.push(format!("guest {off:#x}: read_at Err({e:?})")),
            }
            off += g.csu();
        }
        if !lost.is_empty() {
            viol.push(format!(
                "{tag}: ACKNOWLEDGED WRITE LOST: {} cluster(s) of write {:#x}+{:#x}, first: {}",
                lost.len(),
                a.off,
                a.len,
                lost[0]
            ));
        }
        if !under.is_empty() {
            viol.push(format!(
                "{tag}: UNDER-COUNT: {} cluster(s) of write {:#x}+{:#x}, first: {}",
                under.len(),
                a.off,
                a.len,
                under[0]
            ));
        }
    }
}

fn finish(name: &str, viol: Vec<String>) {
    if viol.is_empty() {
        println!("{name}: property holds");
        return;
    }
    println!("\n{name}: {} violation(s):", viol.len());
    for v in &viol {
        println!("  - {v}");
    }
    panic!("{name}: C17 violated, {} violation(s), first: {}", viol.len(), viol[0]);
}

fn rt() -> tokio::runtime::Runtime {
    tokio::runtime::Builder::new_current_thread()
        .enable_all()
        .build()
        .unwrap()
}

const G64K: Geo = Geo {
    cb: 16,
    vsize: 64 << 20,
};
/// 4 L1 entries (one L2 table maps 512MiB)
const G64K_BIG: Geo = Geo {
    cb: 16,
    vsize: 2 << 30,
};
/// 4K clusters: one L2 table maps 2MiB, one refblock covers 8MiB of host
const G4K: Geo = Geo {
    cb: 12,
    vsize: 32 << 20,
};

// ---------------------------------------------------------------------
// E1: flush_cache_entries clears the dirty flag before the slice write
// ---------------------------------------------------------------------

/// `which`: "l2" -> fail the L2 slice write, "rb" -> fail the refblock slice write
async fn e1_history(which: &str, viol: &mut Vec<String>) {
    let g = G64K;
    let tag = format!("E1/{which}");
    let io = MemIo::from_bytes(format_image(g));
    let p = params(None, None);
    let dev = open(io.clone(), &p).await;

    // make the L1 entry / L2 table durable first, so that only slice
    // write-back is involved in the faulted flush (keeps E2 out of it)
    let a0 = Ack { off: 0, len: g.cs(), pat: 0xA0 };
    write_pat(&dev, a0.off, a0.len, a0.pat).await.unwrap();
    dev.flush_meta().await.unwrap();
    let img0 = io.snapshot();
    let l2_off = disk_l1_entry(&img0, 0);
    let rb_off = disk_rt_entry(&img0, 0);
    assert!(l2_off != 0 && rb_off != 0);

    // acknowledged writes, mappings in the same (already durable) L2 table
    let a1 = Ack { off: g.csu(), len: g.cs(), pat: 0xA1 };
    let a2 = Ack { off: 2 * g.csu(), len: g.cs(), pat: 0xA2 };
    write_pat(&dev, a1.off, a1.len, a1.pat).await.unwrap();
    write_pat(&dev, a2.off, a2.len, a2.pat).await.unwrap();

    let target = if which == "l2" { l2_off } else { rb_off };
    io.arm_rules(vec![Rule::once(Kind::Write, target, target + g.csu())]);
    let res = dev.flush_meta().await;
    io.disarm();
    println!("{tag}: faulted flush_meta -> {res:?}; requests {:?}", io.log());
    assert_eq!(io.faults_hit(), 1, "{tag}: fault not hit");
    if res.is_ok() {
        viol.push(format!("{tag}: flush_meta returned Ok although a slice write failed"));
    }

    // device stays usable
    let mut buf = vec![0u8; g.cs()];
    dev.read_at(&mut buf, a1.off).await.unwrap();
    assert!(buf.iter().all(|b| *b == a1.pat));

    io.clear_log();
    flush_until_ok(&dev, &tag).await;
    println!("{tag}: requests of the retried flush_meta: {:?}", io.log());

    let img = io.snapshot();
    drop(dev);
    let dev2 = open(MemIo::from_bytes(img.clone()), &p).await;
    verify(&dev2, &img, g, &[a0, a1, a2], &format!("{tag} after reopen"), viol).await;
}

#[test]
fn e1_l2_slice_write_fault_then_retry_flush() {
    rt().block_on(async {
        let mut viol = Vec::new();
        e1_history("l2", &mut viol).await;
        finish("e1_l2_slice_write_fault_then_retry_flush", viol);
    });
}

#[test]
fn e1_refblock_slice_write_fault_then_retry_flush() {
    rt().block_on(async {
        let mut viol = Vec::new();
        e1_history("rb", &mut viol).await;
        finish("e1_refblock_slice_write_fault_then_retry_flush", viol);
    });
}

// ---------------------------------------------------------------------
// E2: dirty block index of L1 / reftable popped before the block write
// ---------------------------------------------------------------------

/// `which`: "l1write" -> fail the L1 block write,
///          "fsync"   -> fail the fsync between the L2 slices and the L1 block
async fn e2_l1_history(which: &str, viol: &mut Vec<String>) {
    let g = G64K_BIG;
    let tag = format!("E2/{which}");
    let io = MemIo::from_bytes(format_image(g));
    let p = params(None, None);
    let dev = open(io.clone(), &p).await;

    let a0 = Ack { off: 0, len: g.cs(), pat: 0xB0 };
    write_pat(&dev, a0.off, a0.len, a0.pat).await.unwrap();
    dev.flush_meta().await.unwrap();
    let l1_off = disk_l1_off(&io.snapshot());

    // acknowledged write into a guest range covered by L1 entry 1: a NEW L2 table
    let a1 = Ack { off: 512 << 20, len: g.cs(), pat: 0xB1 };
    write_pat(&dev, a1.off, a1.len, a1.pat).await.unwrap();

    let rule = if which == "l1write" {
        Rule::once(Kind::Write, l1_off, l1_off + g.csu())
    } else {
        // fsync #0 follows the refblock slices, fsync #1 sits between the
        // L2 slices and the L1 block
        Rule { kind: Kind::Fsync, lo: 0, hi: 0, len: None, skip: 1, remaining: 1 }
    };
    io.arm_rules(vec![rule]);
    let res = dev.flush_meta().await;
    io.disarm();
    println!("{tag}: faulted flush_meta -> {res:?}; requests {:?}", io.log());
    assert_eq!(io.faults_hit(), 1, "{tag}: fault not hit");
    if res.is_ok() {
        viol.push(format!("{tag}: flush_meta returned Ok although a request failed"));
    }

    let mut buf = vec![0u8; g.cs()];
    dev.read_at(&mut buf, a1.off).await.unwrap();
    assert!(buf.iter().all(|b| *b == a1.pat));

    io.clear_log();
    flush_until_ok(&dev, &tag).await;
    println!("{tag}: requests of the retried flush_meta: {:?}", io.log());

    let img = io.snapshot();
    println!(
        "{tag}: on disk L1[0]={:#x} L1[1]={:#x}",
        disk_l1_entry(&img, 0),
        disk_l1_entry(&img, 1)
    );
    drop(dev);
    let dev2 = open(MemIo::from_bytes(img.clone()), &p).await;
    verify(&dev2, &img, g, &[a0, a1], &format!("{tag} after reopen"), viol).await;
}

#[test]
fn e2_l1_block_write_fault_then_retry_flush() {
    rt().block_on(async {
        let mut viol = Vec::new();
        e2_l1_history("l1write", &mut viol).await;
        finish("e2_l1_block_write_fault_then_retry_flush", viol);
    });
}

#[test]
fn e2_fsync_before_l1_block_fault_then_retry_flush() {
    rt().block_on(async {
        let mut viol = Vec::new();
        e2_l1_history("fsync", &mut viol).await;
        finish("e2_fsync_before_l1_block_fault_then_retry_flush", viol);
    });
}

/// new refcount block: reftable entry dirty, fail the reftable block write
#[test]
fn e2_reftable_block_write_fault_then_retry_flush() {
    rt().block_on(async {
        let g = G4K;
        let tag = "E2/reftable";
        let mut viol = Vec::new();
        let io = MemIo::from_bytes(format_image(g));
        let p = params(None, None);
        let dev = open(io.clone(), &p).await;
        let mb = 1usize << 20;

        // refblock 0 covers host [0, 8MiB): fill most of it, make it durable
        let mut acks = Vec::new();
        for c in 0..7u64 {
            let a = Ack { off: c * mb as u64, len: mb, pat: 0xC0 + c as u8 };
            write_pat(&dev, a.off, a.len, a.pat).await.unwrap();
            acks.push(a);
        }
        dev.flush_meta().await.unwrap();
        let img0 = io.snapshot();
        let rt_off = disk_rt_off(&img0);
        assert_eq!(disk_rt_entry(&img0, 1), 0);

        // this acknowledged write runs over the end of refblock 0: a new
        // refblock is set up and reftable entry 1 becomes dirty
        let a = Ack { off: 7 * mb as u64, len: mb, pat: 0xC7 };
        write_pat(&dev, a.off, a.len, a.pat).await.unwrap();
        acks.push(a);

        io.arm_rules(vec![Rule::once(Kind::Write, rt_off, rt_off + g.csu())]);
        let res = dev.flush_meta().await;
        io.disarm();
        println!("{tag}: faulted flush_meta -> {res:?}; requests {:?}", io.log());
        assert_eq!(io.faults_hit(), 1, "{tag}: fault not hit (no new refblock?)");
        if res.is_ok() {
            viol.push(format!("{tag}: flush_meta returned Ok although a request failed"));
        }

        io.clear_log();
        flush_until_ok(&dev, tag).await;
        println!("{tag}: requests of the retried flush_meta: {:?}", io.log());

        let img = io.snapshot();
        println!(
            "{tag}: on disk reftable[0]={:#x} reftable[1]={:#x}, file size {:#x}",
            disk_rt_entry(&img, 0),
            disk_rt_entry(&img, 1),
            img.len()
        );
        drop(dev);
        let dev2 = open(MemIo::from_bytes(img.clone()), &p).await;
        verify(&dev2, &img, g, &acks, &format!("{tag} after reopen"), &mut viol).await;
        finish("e2_reftable_block_write_fault_then_retry_flush", viol);
    });
}

// ---------------------------------------------------------------------
// E3: results of zeroing new meta-data clusters are dropped
// ---------------------------------------------------------------------

#[test]
fn e3_failed_zeroing_of_new_l2_cluster_is_ignored() {
    rt().block_on(async {
        let g = G64K_BIG;
        let tag = "E3";
        let mut viol = Vec::new();
        let io = MemIo::from_bytes(format_image(g));
        let p = params(None, None);
        let dev = open(io.clone(), &p).await;

        // guest cluster 1: "secret" data of somebody else
        let a1 = Ack { off: g.csu(), len: g.cs(), pat: 0xEE };
        // guest cluster 0: guest data that happens to look like L2 entries
        write_pat(&dev, 0, g.cs(), 0x01).await.unwrap();
        write_pat(&dev, a1.off, a1.len, a1.pat).await.unwrap();
        dev.flush_meta().await.unwrap();
        let h0 = dev.get_mapping(0).await.unwrap().cluster_offset.unwrap();
        let h1 = dev.get_mapping(a1.off).await.unwrap().cluster_offset.unwrap();
        println!("{tag}: guest 0 -> host {h0:#x}, guest 0x10000 -> host {h1:#x}");

        // the guest fills its cluster 0 with bytes that decode as
        // "COPIED | host offset of guest cluster 1"
        let entry = ((1u64 << 63) | h1).to_be_bytes();
        let mut l2_like = Vec::with_capacity(g.cs());
        while l2_like.len() < g.cs() {
            l2_like.extend_from_slice(&entry);
        }
        dev.write_at(&l2_like, 0).await.unwrap();

        // discard of guest cluster 0 with the punch (and its zero-write
        // fallback) failing: bytes stay in host cluster h0, the cluster is
        // free in ram
        io.arm_rules(vec![
            Rule::once(Kind::Punch, h0, h0 + g.csu()),
            Rule { kind: Kind::Write, lo: h0, hi: h0 + 1, len: Some(g.cs()), skip: 0, remaining: 1 },
        ]);
        let res = dev.discard(0, g.csu()).await;
        io.disarm();
        println!("{tag}: discard with failing punch -> {res:?}; requests {:?}", io.log());
        assert_eq!(io.faults_hit(), 2);
        flush_until_ok(&dev, tag).await;
        println!(
            "{tag}: guest 0 now maps {:?}, refcount of {h0:#x} on disk {}",
            dev.get_mapping(0).await.unwrap().source,
            disk_refcount(&io.snapshot(), g, h0)
        );

        // acknowledged write into the range of L1 entry 1: the new L2 table
        // re-uses host cluster h0
        let a2 = Ack { off: 512 << 20, len: g.cs(), pat: 0xE2 };
        write_pat(&dev, a2.off, a2.len, a2.pat).await.unwrap();

        // flush with the zeroing of the new L2 cluster failing (fallocate
        // and the zero-write fallback), one time each
        io.arm_rules(vec![
            Rule::once(Kind::Punch, h0, h0 + g.csu()),
            Rule { kind: Kind::Write, lo: h0, hi: h0 + 1, len: Some(g.cs()), skip: 0, remaining: 1 },
        ]);
        let res = dev.flush_meta().await;
        io.disarm();
        println!("{tag}: flush_meta with failing zeroing -> {res:?}; requests {:?}", io.log());
        assert_eq!(io.faults_hit(), 2, "{tag}: faults not hit, new L2 table not at {h0:#x}?");
        let flush_failed = res.is_err();
        if !flush_failed {
            println!("{tag}: flush_meta returned Ok although the zeroing of a new meta cluster failed");
        }
        flush_until_ok(&dev, tag).await;

        let img = io.snapshot();
        println!("{tag}: on disk L1[1]={:#x}", disk_l1_entry(&img, 1));

        // a guest cluster that was never written, covered by the same L2
        // table but another slice (slice = 512 entries)
        let probe = (512u64 << 20) + 512 * g.csu();
        for (name, d) in [
            ("live device", &dev),
            ("after reopen", &open(MemIo::from_bytes(img.clone()), &p).await),
        ] {
            let m = d.get_mapping(probe).await;
            println!("{tag}: {name}: never written guest {probe:#x} maps {m:?}");
            let mut buf = vec![0x5Au8; g.cs()];
            match d.read_at(&mut buf, probe).await {
                Ok(_) => {
                    if buf.iter().any(|b| *b != 0) {
                        viol.push(format!(
                            "{tag}: {name}: never written guest cluster {probe:#x} reads {} (mapping {m:?}) instead of zeros; flush_meta had returned {}",
                            describe(&buf),
                            if flush_failed { "Err" } else { "Ok" }
                        ));
                    }
                }
                Err(e) => viol.push(format!(
                    "{tag}: {name}: read of never written guest cluster {probe:#x} -> Err({e:?})"
                )),
            }
        }

        // consequence: a write to the bogus cluster lands in the host
        // cluster of guest cluster 1
        if !viol.is_empty() {
            let dev2 = open(MemIo::from_bytes(img.clone()), &p).await;
            let r = write_pat(&dev2, probe, g.cs(), 0x77).await;
            let mut buf = vec![0u8; g.cs()];
            dev2.read_at(&mut buf, a1.off).await.unwrap();
            println!("{tag}: after reopen: write_at({probe:#x}, 0x77..) -> {r:?}; guest {:#x} (wrote all 0xee) now reads {}", a1.off, describe(&buf));
            if buf.iter().any(|b| *b != a1.pat) {
                viol.push(format!(
                    "{tag}: after reopen: writing guest {probe:#x} overwrote acknowledged guest {:#x}: reads {}",
                    a1.off,
                    describe(&buf)
                ));
            }
        }

        let dev2 = open(MemIo::from_bytes(img.clone()), &p).await;
        verify(&dev2, &img, g, &[a1, a2], &format!("{tag} after reopen"), &mut viol).await;
        finish("e3_failed_zeroing_of_new_l2_cluster_is_ignored", viol);
    });
}

// ---------------------------------------------------------------------
// E4: evicted dirty victims are dropped when the write-back fails
// ---------------------------------------------------------------------

/// L2 cache of two 512 byte slices (64 entries = 4MiB of guest each).
/// Returns the number of backend requests issued by the faulted read.
async fn e4_l2_history(k: Option<usize>, viol: &mut Vec<String>) -> usize {
    let g = G64K;
    let tag = format!("E4/l2 k={k:?}");
    let io = MemIo::from_bytes(format_image(g));
    let p = params(None, Some((9, 1024)));
    let dev = open(io.clone(), &p).await;

    // L1 entry and L2 table durable, L2 cluster not "new" any more
    let a0 = Ack { off: 0, len: g.cs(), pat: 0xD0 };
    write_pat(&dev, a0.off, a0.len, a0.pat).await.unwrap();
    dev.flush_meta().await.unwrap();

    // dirty two slices (acknowledged writes)
    let a1 = Ack { off: g.csu(), len: g.cs(), pat: 0xD1 }; // slice 0
    let a2 = Ack { off: 4 << 20, len: g.cs(), pat: 0xD2 }; // slice 1
    write_pat(&dev, a1.off, a1.len, a1.pat).await.unwrap();
    write_pat(&dev, a2.off, a2.len, a2.pat).await.unwrap();

    // read in a third slice: eviction + write-back of a dirty victim
    match k {
        Some(k) => io.arm_kth(k),
        None => io.clear_log(),
    }
    let mut buf = vec![0x5Au8; g.cs()];
    let res = dev.read_at(&mut buf, 8 << 20).await;
    let nr = io.nr_requests();
    io.disarm();
    println!("{tag}: read_at(8MiB) -> {:?}; requests {:?}", res.as_ref().map(|_| ()), io.log());
    if let Some(k) = k {
        if k < nr {
            assert_eq!(io.faults_hit(), 1, "{tag}: fault not hit");
            if res.is_ok() {
                viol.push(format!("{tag}: read_at returned Ok although request {k} failed"));
            }
        }
    }

    // device stays usable: acknowledged data still readable on the live device
    for a in [a1, a2] {
        let mut buf = vec![0x5Au8; g.cs()];
        match dev.read_at(&mut buf, a.off).await {
            Ok(_) if buf.iter().all(|b| *b == a.pat) => {}
            Ok(_) => viol.push(format!(
                "{tag}: live device: ACKNOWLEDGED WRITE LOST: guest {:#x} wrote all {:#04x}, reads {}",
                a.off,
                a.pat,
                describe(&buf)
            )),
            Err(e) => viol.push(format!("{tag}: live device: read guest {:#x} -> Err({e:?})", a.off)),
        }
    }

    flush_until_ok(&dev, &tag).await;
    let img = io.snapshot();
    drop(dev);
    let dev2 = open(MemIo::from_bytes(img.clone()), &p).await;
    verify(&dev2, &img, g, &[a0, a1, a2], &format!("{tag} after reopen"), viol).await;
    nr
}

#[test]
fn e4_l2_eviction_write_back_fault() {
    rt().block_on(async {
        let mut viol = Vec::new();
        let nr = e4_l2_history(None, &mut viol).await;
        assert!(viol.is_empty(), "fault free history must be clean: {viol:?}");
        println!("E4/l2: fault free read issues {nr} requests\n");
        for k in 0..nr {
            let before = viol.len();
            e4_l2_history(Some(k), &mut viol).await;
            println!("E4/l2 k={k}: {} violation(s)\n", viol.len() - before);
        }
        finish("e4_l2_eviction_write_back_fault", viol);
    });
}

/// refblock cache of two 512 byte slices (256 entries = 1MiB of host with
/// 4K clusters).
async fn e4_rb_history(k: Option<usize>, viol: &mut Vec<String>) -> usize {
    let g = G4K;
    let tag = format!("E4/rb k={k:?}");
    let io = MemIo::from_bytes(format_image(g));
    let p = params(Some((9, 1024)), None);
    let dev = open(io.clone(), &p).await;
    let kb = 1usize << 10;

    // W1: 128 clusters, made durable (refblock slice 0 clean, half full)
    let a0 = Ack { off: 0, len: 512 * kb, pat: 0xF0 };
    write_pat(&dev, a0.off, a0.len, a0.pat).await.unwrap();
    dev.flush_meta().await.unwrap();

    // W2: acknowledged, fills slice 0 and starts slice 1: both dirty
    let a1 = Ack { off: 512 * kb as u64, len: 512 * kb, pat: 0xF1 };
    write_pat(&dev, a1.off, a1.len, a1.pat).await.unwrap();

    // W3: needs slice 2 -> eviction of a dirty refblock slice + write-back
    match k {
        Some(k) => io.arm_kth(k),
        None => io.clear_log(),
    }
    let res = write_pat(&dev, 1 << 20, 1 << 20, 0xF2).await;
    let nr = io.nr_requests();
    io.disarm();
    let log = io.log();
    // the three meta-data requests of the eviction come first, the punches
    // and data writes of the 256 data clusters follow
    let shown: Vec<_> = log.iter().take(4).collect();
    println!("{tag}: write_at(1MiB, 1MiB) -> {res:?}; {nr} requests, first ones: {shown:?}");
    let mut acks = vec![a0, a1];
    if let Some(k) = k {
        if k < nr {
            assert_eq!(io.faults_hit(), 1, "{tag}: fault not hit");
            if res.is_ok() {
                viol.push(format!("{tag}: write_at returned Ok although request {k} failed"));
            }
        }
    }
    if res.is_ok() {
        acks.push(Ack { off: 1 << 20, len: 1 << 20, pat: 0xF2 });
    }

    flush_until_ok(&dev, &tag).await;
    let img = io.snapshot();
    drop(dev);
    let dev2 = open(MemIo::from_bytes(img.clone()), &p).await;
    verify(&dev2, &img, g, &acks, &format!("{tag} after reopen"), viol).await;
    nr
}

#[test]
fn e4_refblock_eviction_write_back_fault() {
    rt().block_on(async {
        let mut viol = Vec::new();
        let nr = e4_rb_history(None, &mut viol).await;
        assert!(viol.is_empty(), "fault free history must be clean: {viol:?}");
        println!("E4/rb: fault free write issues {nr} requests\n");
        // requests 0..3 are the load of the new slice, the write-back of the
        // evicted dirty slice and the fsync; what follows are punches (which
        // have a zero-write fallback by design) and the data writes, whose
        // failure is the write's own failure: not interesting here
        for k in 0..nr.min(3) {
            let before = viol.len();
            e4_rb_history(Some(k), &mut viol).await;
            println!("E4/rb k={k}: {} violation(s)\n", viol.len() - before);
        }
        finish("e4_refblock_eviction_write_back_fault", viol);
    });
}

//! C11 triage: discard contract over a backing chain.
//!
//! After `discard(offset, len)` every whole cluster inside the range which had
//! its own uncompressed allocation has to read as ZEROS, never as older data
//! of the backing chain; zero-flagged clusters keep their content (zeros).
//!
//! D1: data cluster of the top image, same guest cluster of the backing image
//!     holds 0xbb.
//! D2: zero-flagged cluster WITH preallocation in the top image (L2 entry
//!     hand-patched to `COPIED | host_off | 1`), same backing image.
//!
//! Everything runs against in-memory image files, no qemu-img needed.

use qcow2_rs::dev::{Qcow2Dev, Qcow2DevParams};
use qcow2_rs::error::Qcow2Result;
use qcow2_rs::helpers::Qcow2IoBuf;
use qcow2_rs::meta::Qcow2Header;
use qcow2_rs::ops::Qcow2IoOps;
use qcow2_rs::utils::qcow2_alloc_dev;
use std::cell::RefCell;
use std::path::PathBuf;
use std::rc::Rc;

const CLUSTER_BITS: usize = 16;
const CLUSTER: usize = 1 << CLUSTER_BITS;

#[derive(Debug, Clone, Copy, PartialEq)]
enum Req {
    Read,
    Write,
    Fallocate,
    Fsync,
}

#[derive(Default)]
struct MemFile {
    data: RefCell<Vec<u8>>,
    log: RefCell<Vec<(Req, u64, usize)>>,
}

/// in-memory image file, records every request it gets
#[derive(Clone)]
struct MemIo(Rc<MemFile>);

impl MemIo {
    fn new(data: Vec<u8>) -> Self {
        MemIo(Rc::new(MemFile {
            data: RefCell::new(data),
            log: RefCell::new(Vec::new()),
        }))
    }
    fn snapshot(&self) -> Vec<u8> {
        self.0.data.borrow().clone()
    }
    fn modifying_requests(&self) -> Vec<(Req, u64, usize)> {
        self.0
            .log
            .borrow()
            .iter()
            .filter(|r| r.0 == Req::Write || r.0 == Req::Fallocate)
            .cloned()
            .collect()
    }
}

impl Qcow2IoOps for MemIo {
    async fn read_to(&self, offset: u64, buf: &mut [u8]) -> Qcow2Result<usize> {
        self.0.log.borrow_mut().push((Req::Read, offset, buf.len()));
        let data = self.0.data.borrow();
        let off = offset as usize;
        if off >= data.len() {
            return Ok(0);
        }
        let n = std::cmp::min(buf.len(), data.len() - off);
        buf[..n].copy_from_slice(&data[off..off + n]);
        Ok(n)
    }

    async fn write_from(&self, offset: u64, buf: &[u8]) -> Qcow2Result<()> {
        self.0
            .log
            .borrow_mut()
            .push((Req::Write, offset, buf.len()));
        let mut data = self.0.data.borrow_mut();
        let off = offset as usize;
        if data.len() < off + buf.len() {
            data.resize(off + buf.len(), 0);
        }
        data[off..off + buf.len()].copy_from_slice(buf);
        Ok(())
    }

    async fn fallocate(&self, offset: u64, len: usize, _flags: u32) -> Qcow2Result<()> {
        self.0.log.borrow_mut().push((Req::Fallocate, offset, len));
        // punch hole & keep size
        let mut data = self.0.data.borrow_mut();
        let start = std::cmp::min(offset as usize, data.len());
        let end = std::cmp::min(offset as usize + len, data.len());
        data[start..end].fill(0);
        Ok(())
    }

    async fn fsync(&self, offset: u64, len: usize, _flags: u32) -> Qcow2Result<()> {
        self.0.log.borrow_mut().push((Req::Fsync, offset, len));
        Ok(())
    }
}

fn format_image(size: u64, backing: Option<&str>) -> Vec<u8> {
    let (rc_t, rc_b, _) = Qcow2Header::calculate_meta_params(size, CLUSTER_BITS, 4, 512);
    let clusters = 1 + rc_t.1 + rc_b.1;
    let mut buf = vec![0u8; ((clusters as usize) << CLUSTER_BITS) + 512];

    Qcow2Header::format_qcow2(&mut buf, size, CLUSTER_BITS, 4, 512).unwrap();
    if let Some(name) = backing {
        let name_off = 1024_u64;
        buf[8..16].copy_from_slice(&name_off.to_be_bytes());
        buf[16..20].copy_from_slice(&(name.len() as u32).to_be_bytes());
        buf[name_off as usize..name_off as usize + name.len()].copy_from_slice(name.as_bytes());
    }
    buf
}

fn poisoned(len: usize) -> Qcow2IoBuf<u8> {
    let mut buf = Qcow2IoBuf::<u8>::new(len);
    buf.fill(POISON);
    buf
}

async fn open_dev(
    name: &str,
    io: MemIo,
    backing: Option<Qcow2Dev<MemIo>>,
    as_backing: bool,
) -> Qcow2Dev<MemIo> {
    let mut params = Qcow2DevParams::new(9, None, None, false, false);
    if as_backing {
        params.mark_backing_dev(Some(true));
    }
    let (mut dev, back_path) = qcow2_alloc_dev(&PathBuf::from(name), io, &params)
        .await
        .unwrap();
    assert_eq!(back_path.is_some(), backing.is_some());
    if let Some(b) = backing {
        dev.set_backing_dev(Box::new(b));
    }
    dev.qcow2_prep_io().await.unwrap();
    dev
}


const POISON: u8 = 0x55;
const K: usize = 2; // the guest cluster under test

fn rt() -> tokio::runtime::Runtime {
    tokio::runtime::Builder::new_current_thread()
        .enable_all()
        .build()
        .unwrap()
}

fn be64(img: &[u8], off: usize) -> u64 {
    u64::from_be_bytes(img[off..off + 8].try_into().unwrap())
}

/// (file offset of the L2 entry, raw L2 entry) of a guest cluster, from the image bytes
fn raw_l2_entry(img: &[u8], guest_cluster: usize) -> Option<(usize, u64)> {
    let l2_entries = CLUSTER / 8;
    let l1_off = be64(img, 40) as usize;
    let l1_e = be64(img, l1_off + 8 * (guest_cluster / l2_entries));
    let l2_off = (l1_e & 0x00ff_ffff_ffff_fe00) as usize;
    if l2_off == 0 {
        return None;
    }
    let e_off = l2_off + 8 * (guest_cluster % l2_entries);
    Some((e_off, be64(img, e_off)))
}

/// refcount (refcount_order 4, 16 bit entries) of a host cluster, from the image bytes
fn raw_refcount(img: &[u8], host_off: u64) -> u16 {
    let idx = (host_off as usize) >> CLUSTER_BITS;
    let per_blk = CLUSTER / 2;
    let rt_off = be64(img, 48) as usize;
    let rb_off = be64(img, rt_off + 8 * (idx / per_blk)) as usize;
    if rb_off == 0 {
        return 0;
    }
    let o = rb_off + 2 * (idx % per_blk);
    u16::from_be_bytes(img[o..o + 2].try_into().unwrap())
}

/// describe a cluster sized buffer: "all 0xNN" or the first bytes
fn describe(buf: &[u8]) -> String {
    let first = buf[0];
    if buf.iter().all(|b| *b == first) {
        format!("all 0x{:02x}", first)
    } else {
        let n = buf.iter().filter(|b| **b != 0).count();
        format!("mixed ({} nonzero bytes, starts {:02x?})", n, &buf[..8])
    }
}

async fn read_cluster(dev: &Qcow2Dev<MemIo>, cluster: usize) -> Vec<u8> {
    let mut buf = poisoned(CLUSTER);
    let res = dev.read_at(&mut buf, (cluster * CLUSTER) as u64).await.unwrap();
    assert_eq!(res, CLUSTER);
    buf.to_vec()
}

async fn fill_cluster(dev: &Qcow2Dev<MemIo>, cluster: usize, val: u8) {
    let mut buf = Qcow2IoBuf::<u8>::new(CLUSTER);
    buf.fill(val);
    dev.write_at(&buf, (cluster * CLUSTER) as u64).await.unwrap();
}

/// backing image: guest clusters K-1, K, K+1 hold 0xb1, 0xbb, 0xb3
async fn make_backing(size: usize) -> Vec<u8> {
    let io = MemIo::new(format_image(size as u64, None));
    let dev = open_dev("back.qcow2", io.clone(), None, false).await;
    fill_cluster(&dev, K - 1, 0xb1).await;
    fill_cluster(&dev, K, 0xbb).await;
    fill_cluster(&dev, K + 1, 0xb3).await;
    dev.flush_meta().await.unwrap();
    drop(dev);
    io.snapshot()
}

async fn open_chain(top_io: &MemIo, back_bytes: &[u8]) -> (Qcow2Dev<MemIo>, MemIo) {
    let back_io = MemIo::new(back_bytes.to_vec());
    let back = open_dev("back.qcow2", back_io.clone(), None, true).await;
    let top = open_dev("top.qcow2", top_io.clone(), Some(back), false).await;
    (top, back_io)
}

/// control: the very same sequence without a backing file gives zeros
#[test]
fn control_discard_without_backing_reads_zeros() {
    rt().block_on(async {
        let size = 16 * CLUSTER;
        let io = MemIo::new(format_image(size as u64, None));
        let dev = open_dev("plain.qcow2", io.clone(), None, false).await;
        fill_cluster(&dev, K, 0xaa).await;
        assert_eq!(describe(&read_cluster(&dev, K).await), "all 0xaa");
        dev.discard((K * CLUSTER) as u64, CLUSTER as u64).await.unwrap();
        let after = describe(&read_cluster(&dev, K).await);
        eprintln!("control: after discard, no backing file: {after}");
        assert_eq!(after, "all 0x00");
        dev.check().await.unwrap();
    });
}

/// D1
#[test]
fn d1_discarded_data_cluster_reads_zeros_not_backing_data() {
    rt().block_on(async {
        let size = 16 * CLUSTER;
        let back_bytes = make_backing(size).await;
        let top_io = MemIo::new(format_image(size as u64, Some("back.qcow2")));
        let (top, back_io) = open_chain(&top_io, &back_bytes).await;

        // before any write, the top device shows the backing image
        assert_eq!(describe(&read_cluster(&top, K).await), "all 0xbb");

        // own allocations of the top image: K (0xaa) and K+1 (0xa3)
        fill_cluster(&top, K, 0xaa).await;
        fill_cluster(&top, K + 1, 0xa3).await;
        assert_eq!(describe(&read_cluster(&top, K).await), "all 0xaa");
        let m = top.get_mapping((K * CLUSTER) as u64).await.unwrap();
        eprintln!("D1: mapping of cluster {K} before discard: {m}");
        let host_off = m.cluster_offset.unwrap();

        // whole cluster K, plus the first 4K of cluster K+1 (partial tail: unchanged)
        top.discard((K * CLUSTER) as u64, (CLUSTER + 4096) as u64)
            .await
            .unwrap();

        let m = top.get_mapping((K * CLUSTER) as u64).await.unwrap();
        eprintln!("D1: mapping of cluster {K} after discard:  {m}");
        let after = describe(&read_cluster(&top, K).await);
        let prev = describe(&read_cluster(&top, K - 1).await);
        let next = describe(&read_cluster(&top, K + 1).await);
        eprintln!("D1: after discard: cluster {K} reads {after}; neighbours: {prev} / {next}");

        // flush & reopen the whole chain
        top.flush_meta().await.unwrap();
        let check_res = top.check().await;
        drop(top);
        let top_bytes = top_io.snapshot();
        let raw = raw_l2_entry(&top_bytes, K).map(|e| e.1);
        let rc = raw_refcount(&top_bytes, host_off);
        eprintln!(
            "D1: flushed image: raw L2 entry of cluster {K} = {raw:x?}, refcount of host cluster 0x{host_off:x} = {rc}, check() = {check_res:?}"
        );
        let (top, back_io2) = open_chain(&MemIo::new(top_bytes), &back_bytes).await;
        let reopened = describe(&read_cluster(&top, K).await);
        let next_reopened = describe(&read_cluster(&top, K + 1).await);
        eprintln!("D1: after flush + reopen: cluster {K} reads {reopened}");

        // things which hold
        assert!(back_io.modifying_requests().is_empty());
        assert!(back_io2.modifying_requests().is_empty());
        assert_eq!(prev, "all 0xb1", "cluster before the range changed");
        assert_eq!(next, "all 0xa3", "partially covered tail cluster changed");
        assert_eq!(next_reopened, "all 0xa3");
        assert_eq!(rc, 0, "released host cluster isn't free");
        assert!(check_res.is_ok());

        // the property
        assert_eq!(
            after, "all 0x00",
            "discarded cluster (own allocation, held 0xaa) has to read as zeros, backing holds 0xbb"
        );
        assert_eq!(
            reopened, "all 0x00",
            "discarded cluster has to read as zeros after flush + reopen"
        );
    });
}

/// D2
#[test]
fn d2_discard_of_preallocated_zero_cluster_keeps_zeros() {
    rt().block_on(async {
        let size = 16 * CLUSTER;
        let back_bytes = make_backing(size).await;
        let top_io = MemIo::new(format_image(size as u64, Some("back.qcow2")));
        {
            let (top, _) = open_chain(&top_io, &back_bytes).await;
            fill_cluster(&top, K, 0xaa).await;
            top.flush_meta().await.unwrap();
        }

        // turn the data cluster into a zero cluster with preallocation
        let mut bytes = top_io.snapshot();
        let (e_off, entry) = raw_l2_entry(&bytes, K).unwrap();
        let host_off = entry & 0x00ff_ffff_ffff_fe00;
        assert_eq!(entry, 0x8000_0000_0000_0000 | host_off, "expected COPIED data cluster");
        assert_ne!(host_off, 0);
        let patched = entry | 1;
        bytes[e_off..e_off + 8].copy_from_slice(&patched.to_be_bytes());
        eprintln!("D2: L2 entry of cluster {K} patched 0x{entry:x} -> 0x{patched:x}");
        assert_eq!(raw_refcount(&bytes, host_off), 1);

        let top_io = MemIo::new(bytes);
        let (top, _) = open_chain(&top_io, &back_bytes).await;
        let m = top.get_mapping((K * CLUSTER) as u64).await.unwrap();
        eprintln!("D2: mapping before discard: {m}");
        let before = describe(&read_cluster(&top, K).await);
        eprintln!("D2: before discard: cluster {K} reads {before}");
        assert_eq!(before, "all 0x00", "zero-flagged cluster doesn't read as zeros");
        // side observation only (not part of C11): check() of the patched image
        eprintln!("D2: check() before discard = {:?}", top.check().await.map_err(|e| e.to_string()));

        top.discard((K * CLUSTER) as u64, CLUSTER as u64).await.unwrap();

        let m = top.get_mapping((K * CLUSTER) as u64).await.unwrap();
        eprintln!("D2: mapping after discard:  {m}");
        let after = describe(&read_cluster(&top, K).await);
        eprintln!("D2: after discard: cluster {K} reads {after}");

        top.flush_meta().await.unwrap();
        let check_res = top.check().await;
        drop(top);
        let top_bytes = top_io.snapshot();
        let raw = raw_l2_entry(&top_bytes, K).map(|e| e.1);
        let rc = raw_refcount(&top_bytes, host_off);
        eprintln!(
            "D2: flushed image: raw L2 entry = {raw:x?}, refcount of host cluster 0x{host_off:x} = {rc}, check() = {check_res:?}"
        );
        let (top, _) = open_chain(&MemIo::new(top_bytes), &back_bytes).await;
        let reopened = describe(&read_cluster(&top, K).await);
        eprintln!("D2: after flush + reopen: cluster {K} reads {reopened}");

        assert_eq!(
            after, "all 0x00",
            "zero-flagged (preallocated) cluster has to keep reading as zeros after discard, backing holds 0xbb"
        );
        assert_eq!(reopened, "all 0x00", "same after flush + reopen");
    });
}

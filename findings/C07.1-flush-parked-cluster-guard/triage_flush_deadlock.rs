//! Triage: deadlock between two concurrent `flush_cache_entries()` callers
//! that flush sibling slices of the same *new* metadata cluster.
//!
//! Task A: `flush_meta()` -> `flush_cache_entries([S0])`
//!   - takes the per-cluster `RwLock<bool>` WRITE guard of new L2 cluster C,
//!     parks it in `cluster_map`
//!   - awaits the zeroing `fallocate(C)`               <-- gated by the backend
//!   - then awaits `self.new_cluster.write()` while still holding C's guard
//!
//! Task B: `read_at()` in a full l2 cache -> `add_l2_slice()` evicts the dirty
//!   sibling slice S1 (also stored in cluster C) ->
//!   `flush_cache_entries([S1])` (no flush mutex on this path)
//!   - takes `self.new_cluster.read()`
//!   - awaits C's per-cluster `write()` while holding the map READ guard
//!
//! A waits for the map write lock (blocked by B's read guard), B waits for
//! the per-cluster lock (held by A): both wait forever.
//!
//! The backend is an in-memory image implementing the public `Qcow2IoOps`
//! trait; it logs every request (tagged with the issuing task) and can gate
//! the metadata zeroing request (`FALLOCATE_ZERO_RANGE`) until the test
//! releases it. Nothing in the library is modified.

use qcow2_rs::dev::{Qcow2Dev, Qcow2DevParams};
use qcow2_rs::error::Qcow2Result;
use qcow2_rs::meta::Qcow2Header;
use qcow2_rs::ops::{Qcow2IoOps, Qcow2OpsFlags};
use qcow2_rs::utils::qcow2_alloc_dev;
use std::cell::{Cell, RefCell};
use std::future::Future;
use std::path::Path;
use std::pin::Pin;
use std::rc::Rc;
use std::task::{Context, Poll};
use std::time::Duration;

const CLUSTER_BITS: usize = 16;
const IMG_SIZE: u64 = 64 << 20;
/// 512-byte l2 slices: 64 entries each, i.e. one slice maps 4MiB with 64KiB
/// clusters; one L2 table cluster holds 128 sibling slices.
const SLICE_BITS: u8 = 9;
const SLICE_SPAN: u64 = 64 << CLUSTER_BITS;

// ---------------------------------------------------------------------------
// in-memory gated backend
// ---------------------------------------------------------------------------

/// With `RUST_LOG=qcow2_rs=debug` the library's own log messages are printed
/// and the request log is emitted live so that both interleave correctly.
fn live_log() -> bool {
    std::env::var_os("RUST_LOG").is_some()
}

#[derive(Default)]
struct Shared {
    data: RefCell<Vec<u8>>,
    log: RefCell<Vec<String>>,
    /// label of the task currently being polled (set by `Labeled`)
    cur: Cell<&'static str>,
    /// when armed, FALLOCATE_ZERO_RANGE requests block until `gate_open`
    gate_armed: Cell<bool>,
    gate_open: Cell<bool>,
    /// number of requests currently parked on the gate
    gate_waiters: Cell<usize>,
    /// number of requests that ever parked on the gate
    gate_hits: Cell<usize>,
    /// requests started but not yet completed (any kind)
    inflight: Cell<usize>,
    /// total requests started
    started: Cell<usize>,
}

impl Shared {
    fn say(&self, msg: String) {
        let line = format!("[{:>4}] {}", self.cur.get(), msg);
        if live_log() {
            // interleave with the library's own `log` output
            eprintln!("{line}");
        }
        self.log.borrow_mut().push(line);
    }

    fn dump(&self, title: &str) {
        if live_log() {
            return;
        }
        println!("---- request log: {title} ----");
        for l in self.log.borrow().iter() {
            println!("{l}");
        }
        println!("---- end of log ----");
    }
}

struct MemIo(Rc<Shared>);

impl MemIo {
    fn begin(&self, what: String) -> usize {
        let s = &self.0;
        let id = s.started.get();
        s.started.set(id + 1);
        s.inflight.set(s.inflight.get() + 1);
        s.say(format!("#{id} {what}"));
        id
    }

    fn end(&self, id: usize) {
        let s = &self.0;
        s.inflight.set(s.inflight.get() - 1);
        s.say(format!("#{id} done"));
    }
}

impl Qcow2IoOps for MemIo {
    async fn read_to(&self, offset: u64, buf: &mut [u8]) -> Qcow2Result<usize> {
        let id = self.begin(format!("read_to    off {offset:#x} len {}", buf.len()));
        {
            let data = self.0.data.borrow();
            let off = offset as usize;
            buf.fill(0);
            if off < data.len() {
                let n = std::cmp::min(buf.len(), data.len() - off);
                buf[..n].copy_from_slice(&data[off..off + n]);
            }
        }
        self.end(id);
        Ok(buf.len())
    }

    async fn write_from(&self, offset: u64, buf: &[u8]) -> Qcow2Result<()> {
        let id = self.begin(format!("write_from off {offset:#x} len {}", buf.len()));
        {
            let mut data = self.0.data.borrow_mut();
            let off = offset as usize;
            if data.len() < off + buf.len() {
                data.resize(off + buf.len(), 0);
            }
            data[off..off + buf.len()].copy_from_slice(buf);
        }
        self.end(id);
        Ok(())
    }

    async fn fallocate(&self, offset: u64, len: usize, flags: u32) -> Qcow2Result<()> {
        let s = &self.0;
        let id = self.begin(format!(
            "fallocate  off {offset:#x} len {len} flags {flags:#x}"
        ));

        // Only the metadata zeroing request (new refblock / l2 cluster) uses
        // FALLOCATE_ZERO_RANGE; data cluster discards pass 0.
        if s.gate_armed.get() && (flags & Qcow2OpsFlags::FALLOCATE_ZERO_RANGE) != 0 {
            s.gate_hits.set(s.gate_hits.get() + 1);
            s.gate_waiters.set(s.gate_waiters.get() + 1);
            s.say(format!("#{id} GATED: zeroing request suspended"));
            while !s.gate_open.get() {
                tokio::task::yield_now().await;
            }
            s.gate_waiters.set(s.gate_waiters.get() - 1);
            s.say(format!("#{id} gate released, zeroing proceeds"));
        }

        {
            let mut data = s.data.borrow_mut();
            let off = offset as usize;
            if data.len() < off + len {
                data.resize(off + len, 0);
            }
            data[off..off + len].fill(0);
        }
        self.end(id);
        Ok(())
    }

    async fn fsync(&self, offset: u64, _len: usize, _flags: u32) -> Qcow2Result<()> {
        let id = self.begin(format!("fsync      off {offset:#x}"));
        self.end(id);
        Ok(())
    }
}

/// Sets the "current task" label of the backend whenever the wrapped future
/// is polled, so that the request log shows who issued what.
struct Labeled<F> {
    label: &'static str,
    shared: Rc<Shared>,
    fut: Pin<Box<F>>,
}

impl<F: Future> Future for Labeled<F> {
    type Output = F::Output;
    fn poll(mut self: Pin<&mut Self>, cx: &mut Context<'_>) -> Poll<F::Output> {
        let prev = self.shared.cur.replace(self.label);
        let r = self.fut.as_mut().poll(cx);
        self.shared.cur.set(prev);
        r
    }
}

fn labeled<F: Future>(label: &'static str, shared: &Rc<Shared>, fut: F) -> Labeled<F> {
    Labeled {
        label,
        shared: shared.clone(),
        fut: Box::pin(fut),
    }
}

// ---------------------------------------------------------------------------
// device setup
// ---------------------------------------------------------------------------

fn format_image() -> Vec<u8> {
    let bs = 512;
    let (rc_t, rc_b, _) = Qcow2Header::calculate_meta_params(IMG_SIZE, CLUSTER_BITS, 4, bs);
    let clusters = 1 + rc_t.1 + rc_b.1;
    let img_size = ((clusters as usize) << CLUSTER_BITS) + 512;
    let mut buf = vec![0u8; img_size];
    Qcow2Header::format_qcow2(&mut buf, IMG_SIZE, CLUSTER_BITS, 4, bs).unwrap();
    buf
}

/// Build a device over a fresh in-memory image with 512-byte l2/refblock
/// slices and an l2 cache of exactly 2 slices, then do one guest write at
/// offset 0 so that
///   - a fresh L2 table cluster C is allocated and marked "new"
///   - its slice S0 is dirty in the l2 cache
async fn setup() -> (Rc<Shared>, Qcow2Dev<MemIo>) {
    let shared = Rc::new(Shared::default());
    shared.cur.set("main");
    *shared.data.borrow_mut() = format_image();

    // l2 cache: 2 slices of 512 bytes (the minimum); refblock cache roomy
    // enough that it never evicts in this test.
    let params = Qcow2DevParams::new(
        9,
        Some((SLICE_BITS, 64 << SLICE_BITS)),
        Some((SLICE_BITS, 2 << SLICE_BITS)),
        false,
        false,
    );
    let (dev, backing) = qcow2_alloc_dev(Path::new("/mem/triage.qcow2"), MemIo(shared.clone()), &params)
        .await
        .unwrap();
    assert!(backing.is_none());
    dev.qcow2_prep_io().await.unwrap();

    shared.say("== setup: write_at(0) dirties l2 slice S0 of a new L2 cluster".into());
    let buf = vec![0xa5u8; 4096];
    dev.write_at(&buf, 0).await.unwrap();
    assert!(dev.need_flush_meta());

    (shared, dev)
}

#[derive(Clone, Copy, Debug)]
enum BOp {
    Read,
    Write,
}

async fn b_access(dev: &Qcow2Dev<MemIo>, op: BOp, off: u64) -> Qcow2Result<()> {
    match op {
        BOp::Read => {
            let mut buf = vec![0u8; 4096];
            dev.read_at(&mut buf, off).await.map(|_| ())
        }
        BOp::Write => {
            let buf = vec![0x5au8; 4096];
            dev.write_at(&buf, off).await
        }
    }
}

async fn yield_until<F: Fn() -> bool>(f: F) {
    while !f() {
        tokio::task::yield_now().await;
    }
}

struct Outcome {
    timed_out: bool,
    a_done: bool,
    b_done: bool,
    b_stage: u32,
    gate_hits: usize,
    inflight: usize,
}

/// Run task A (`flush_meta`) and task B (two guest accesses that touch the
/// sibling slices S1 and S2 of the same L2 table) on one thread.
///
/// `interleave == true`:  B runs while A is suspended in the gated zeroing
///                        request; the gate is released once B stopped
///                        making progress (or finished).
/// `interleave == false`: control; B starts only after A completed. The
///                        gate is still exercised (released after A parked
///                        on it for a while).
async fn run_scenario(interleave: bool, op: BOp) -> Outcome {
    let (shared, dev) = setup().await;
    let dev = &dev;
    let s = &shared;

    let a_done = Cell::new(false);
    let b_done = Cell::new(false);
    let b_stage = Cell::new(0u32);

    s.gate_armed.set(true);
    s.say(format!(
        "== scenario: interleave {interleave} B-op {op:?}; zeroing gate armed"
    ));

    let task_a = labeled("A", s, async {
        s.say("flush_meta() enter".into());
        let r = dev.flush_meta().await;
        s.say(format!("flush_meta() exit: {r:?}"));
        a_done.set(true);
        r
    });

    let task_b = labeled("B", s, async {
        if interleave {
            // wait until A is suspended inside the zeroing request
            yield_until(|| s.gate_waiters.get() > 0).await;
        } else {
            yield_until(|| a_done.get()).await;
        }

        // S1: sibling slice of S0 in the same (new) L2 cluster. It is not
        // cached, the cluster is new, so it is built in ram and marked dirty.
        b_stage.set(1);
        s.say(format!("{op:?} at {:#x} (slice S1) enter", SLICE_SPAN));
        b_access(dev, op, SLICE_SPAN).await?;
        s.say("access S1 exit".to_string());

        // S2: cache (limit 2) is full: {S0 (pinned by A's flush), S1}, so S1
        // is evicted; it is dirty => add_l2_slice() writes it back through
        // flush_cache_entries() without the flush mutex.
        b_stage.set(2);
        s.say(format!("{op:?} at {:#x} (slice S2) enter", 2 * SLICE_SPAN));
        b_access(dev, op, 2 * SLICE_SPAN).await?;
        s.say("access S2 exit".to_string());

        b_stage.set(3);
        b_done.set(true);
        Qcow2Result::Ok(())
    });

    let controller = labeled("ctl", s, async {
        yield_until(|| s.gate_waiters.get() > 0).await;
        if interleave {
            // Let B run until it either finished or stopped issuing backend
            // requests / changing stage for 200 consecutive scheduler turns.
            let mut quiet = 0;
            let mut last = (s.started.get(), b_stage.get());
            while !b_done.get() && quiet < 200 {
                tokio::task::yield_now().await;
                let now = (s.started.get(), b_stage.get());
                if now == last {
                    quiet += 1;
                } else {
                    quiet = 0;
                    last = now;
                }
            }
            s.say(format!(
                "B quiescent (done {} stage {}), releasing zeroing gate",
                b_done.get(),
                b_stage.get()
            ));
        } else {
            for _ in 0..200 {
                tokio::task::yield_now().await;
            }
            s.say("releasing zeroing gate".into());
        }
        s.gate_open.set(true);
    });

    let all = async {
        let (ra, rb, _) = futures::join!(task_a, task_b, controller);
        (ra, rb)
    };

    let res = tokio::time::timeout(Duration::from_secs(3), all).await;
    let timed_out = res.is_err();
    match &res {
        Ok((ra, rb)) => {
            s.say(format!("== all tasks completed: A {ra:?} B {rb:?}"));
        }
        Err(_) => {
            s.say(format!(
                "== TIMEOUT after 3s: A done {} B done {} (B stage {}), gate open {}, \
                 gate waiters {}, backend requests in flight {}",
                a_done.get(),
                b_done.get(),
                b_stage.get(),
                s.gate_open.get(),
                s.gate_waiters.get(),
                s.inflight.get()
            ));
        }
    }
    drop(res);

    s.dump(&format!("interleave {interleave} op {op:?}"));

    Outcome {
        timed_out,
        a_done: a_done.get(),
        b_done: b_done.get(),
        b_stage: b_stage.get(),
        gate_hits: s.gate_hits.get(),
        inflight: s.inflight.get(),
    }
}

fn block_on<F: Future>(f: F) -> F::Output {
    let _ = env_logger::builder().format_timestamp(None).try_init();
    let rt = tokio::runtime::Builder::new_current_thread()
        .enable_all()
        .build()
        .unwrap();
    let local = tokio::task::LocalSet::new();
    local.block_on(&rt, f)
}

fn check_control(o: &Outcome) {
    assert_eq!(o.gate_hits, 1, "control: the zeroing gate must be exercised once");
    assert!(
        !o.timed_out && o.a_done && o.b_done,
        "control hung: the harness itself is broken"
    );
}

fn check_no_deadlock(o: &Outcome) {
    assert_eq!(o.gate_hits, 1, "the zeroing gate must be exercised once");
    if o.timed_out {
        // make sure that nothing is pending in the backend: this is a lock
        // cycle inside the library, not a request the harness forgot about
        assert_eq!(o.inflight, 0, "harness bug: backend request still pending");
    }
    assert!(
        !o.timed_out && o.a_done && o.b_done,
        "deadlock: flush_meta (done: {}) and the eviction write-back (done: {}, B stage {}) \
         never completed although the backend has no request in flight",
        o.a_done,
        o.b_done,
        o.b_stage
    );
}

/// Control: same operations, same gated backend, but B starts after A is done.
#[test]
fn control_sequential_reads_complete() {
    let o = block_on(run_scenario(false, BOp::Read));
    check_control(&o);
}

#[test]
fn control_sequential_writes_complete() {
    let o = block_on(run_scenario(false, BOp::Write));
    check_control(&o);
}

/// B = guest reads. Fails on the unmodified library (deadlock).
#[test]
fn interleaved_flush_meta_vs_read_eviction() {
    let o = block_on(run_scenario(true, BOp::Read));
    check_no_deadlock(&o);
}

/// B = guest writes. Fails on the unmodified library (deadlock).
#[test]
fn interleaved_flush_meta_vs_write_eviction() {
    let o = block_on(run_scenario(true, BOp::Write));
    check_no_deadlock(&o);
}

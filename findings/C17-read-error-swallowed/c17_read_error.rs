//! C17: a read whose backend request fails has to return Err.
//!
//! The multi-cluster path of read_at joins the per-cluster reads and, at the
//! first failed one, stops summing and returns Ok(bytes so far): with the
//! very first cluster failing that is Ok(0) - indistinguishable from "nothing
//! to read" - while the same fault on a single-cluster read returns Err.
//!
//! in-memory backend, one injected read failure, no timing.

use qcow2_rs::dev::{Qcow2Dev, Qcow2DevParams};
use qcow2_rs::error::Qcow2Result;
use qcow2_rs::helpers::Qcow2IoBuf;
use qcow2_rs::ops::Qcow2IoOps;
use qcow2_rs::qcow2_default_params;
use qcow2_rs::utils::{make_temp_qcow2_img, qcow2_alloc_dev};
use std::cell::{Cell, RefCell};
use std::path::Path;
use std::rc::Rc;

#[derive(Clone)]
struct MemFile(Rc<RefCell<Vec<u8>>>);

#[derive(Default)]
struct Ctl {
    /// fail every read_to of at least this many bytes that starts at or beyond `from` (data reads)
    fail_reads_from: Cell<Option<u64>>,
    failed: Cell<usize>,
}

struct MemIo {
    file: MemFile,
    ctl: Rc<Ctl>,
}

impl Qcow2IoOps for MemIo {
    async fn read_to(&self, offset: u64, buf: &mut [u8]) -> Qcow2Result<usize> {
        if let Some(from) = self.ctl.fail_reads_from.get() {
            if offset >= from {
                self.ctl.failed.set(self.ctl.failed.get() + 1);
                return Err("injected read failure".into());
            }
        }
        let f = self.file.0.borrow();
        let off = offset as usize;
        for (i, b) in buf.iter_mut().enumerate() {
            *b = f.get(off + i).copied().unwrap_or(0);
        }
        Ok(buf.len())
    }

    async fn write_from(&self, offset: u64, buf: &[u8]) -> Qcow2Result<()> {
        let mut f = self.file.0.borrow_mut();
        let off = offset as usize;
        if f.len() < off + buf.len() {
            f.resize(off + buf.len(), 0);
        }
        f[off..off + buf.len()].copy_from_slice(buf);
        Ok(())
    }

    async fn fallocate(&self, offset: u64, len: usize, _flags: u32) -> Qcow2Result<()> {
        let mut f = self.file.0.borrow_mut();
        let off = offset as usize;
        let end = std::cmp::min(f.len(), off.saturating_add(len));
        if off < end {
            f[off..end].fill(0);
        }
        Ok(())
    }

    async fn fsync(&self, _offset: u64, _len: usize, _flags: u32) -> Qcow2Result<()> {
        Ok(())
    }
}

async fn open_dev(file: MemFile, ctl: Rc<Ctl>) -> Qcow2Dev<MemIo> {
    let params = qcow2_default_params!(false, false);
    let io = MemIo { file, ctl };
    let (dev, backing) = qcow2_alloc_dev(Path::new("mem.qcow2"), io, &params)
        .await
        .unwrap();
    assert!(backing.is_none());
    dev.qcow2_prep_io().await.unwrap();
    dev
}

#[test]
fn c17_failed_multi_cluster_read_is_an_error() {
    futures::executor::block_on(async {
        let size = 4_u64 << 20;
        let cluster_bits = 16;
        let cs = 1_usize << cluster_bits;
        let img = make_temp_qcow2_img(size, cluster_bits, 4);
        let file = MemFile(Rc::new(RefCell::new(std::fs::read(img.path()).unwrap())));
        let ctl = Rc::new(Ctl::default());
        let dev = open_dev(file.clone(), ctl.clone()).await;

        // two allocated data clusters
        let mut wbuf = Qcow2IoBuf::<u8>::new(2 * cs);
        wbuf.iter_mut().for_each(|b| *b = 0x5a);
        dev.write_at(&wbuf, 0).await.unwrap();
        dev.flush_meta().await.unwrap();
        let data_start = file.0.borrow().len() as u64 - 2 * cs as u64;

        // every read of the data clusters fails from now on (metadata is cached)
        ctl.fail_reads_from.set(Some(data_start));

        // single cluster: the error is reported
        let mut rbuf = Qcow2IoBuf::<u8>::new(cs);
        let single = dev.read_at(&mut rbuf, 0).await;
        assert!(single.is_err(), "single-cluster read with a failing backend: {single:?}");

        // two clusters: the same fault has to be reported as well
        let mut rbuf = Qcow2IoBuf::<u8>::new(2 * cs);
        rbuf.iter_mut().for_each(|b| *b = 0x11);
        let multi = dev.read_at(&mut rbuf, 0).await;
        assert!(ctl.failed.get() >= 2, "the fault was not injected");
        assert!(
            multi.is_err(),
            "multi-cluster read with a failing backend returned {multi:?} (buffer still holds {:#x})",
            rbuf[0]
        );

        // the device stays usable once the backend works again
        ctl.fail_reads_from.set(None);
        let n = dev.read_at(&mut rbuf, 0).await.unwrap();
        assert_eq!(n, 2 * cs);
        assert!(rbuf.iter().all(|b| *b == 0x5a));
    });
}

//! A qcow2 image with virtual size 0 is valid (qemu-img create f.qcow2 0).
//! Opening it must return Ok or Err, never panic.
use qcow2_rs::dev::*;
use qcow2_rs::qcow2_default_params;
use qcow2_rs::utils::{make_temp_qcow2_img, qcow2_setup_dev_tokio};
use std::io::{Seek, SeekFrom, Write};

#[test]
fn open_image_with_virtual_size_zero() {
    let rt = tokio::runtime::Runtime::new().unwrap();
    rt.block_on(async {
        let img = make_temp_qcow2_img(1 << 20, 16, 4);
        let path = img.path().to_path_buf();
        // header field `size` is the big endian u64 at byte 24
        let mut f = std::fs::OpenOptions::new().write(true).open(&path).unwrap();
        f.seek(SeekFrom::Start(24)).unwrap();
        f.write_all(&0u64.to_be_bytes()).unwrap();
        f.sync_all().unwrap();
        drop(f);
        let params = qcow2_default_params!(false, false);
        let r = std::panic::AssertUnwindSafe(qcow2_setup_dev_tokio(&path, &params));
        let res = futures::FutureExt::catch_unwind(r).await;
        match res {
            Ok(Ok(_)) => println!("opened"),
            Ok(Err(e)) => println!("refused: {e:?}"),
            Err(p) => panic!("opening a size-0 image panicked: {:?}", p.downcast_ref::<String>().cloned().or(p.downcast_ref::<&str>().map(|s| s.to_string()))),
        }
    });
}

//! C16: every backend request is block aligned (offset, length, buffer address).
//! The image has an L1 table shorter than maximal (valid per the specification);
//! the first write beyond the covered range updates `l1_size` in the header.
use qcow2_rs::dev::*;
use qcow2_rs::error::Qcow2Result;
use qcow2_rs::helpers::Qcow2IoBuf;
use qcow2_rs::ops::Qcow2IoOps;
use qcow2_rs::qcow2_default_params;
use qcow2_rs::sync_io::Qcow2IoSync;
use qcow2_rs::utils::{make_temp_qcow2_img, qcow2_alloc_dev};
use std::cell::RefCell;
use std::io::{Seek, SeekFrom, Write};
use std::rc::Rc;

const BS: usize = 512;

struct Rec {
    inner: Qcow2IoSync,
    bad: Rc<RefCell<Vec<String>>>,
}

impl Qcow2IoOps for Rec {
    async fn read_to(&self, offset: u64, buf: &mut [u8]) -> Qcow2Result<usize> {
        if offset as usize % BS != 0 || buf.len() % BS != 0 || buf.as_ptr() as usize % BS != 0 {
            self.bad.borrow_mut().push(format!("read off {offset:#x} len {} ptr%512 {}", buf.len(), buf.as_ptr() as usize % BS));
        }
        self.inner.read_to(offset, buf).await
    }
    async fn write_from(&self, offset: u64, buf: &[u8]) -> Qcow2Result<()> {
        if offset as usize % BS != 0 || buf.len() % BS != 0 || buf.as_ptr() as usize % BS != 0 {
            self.bad.borrow_mut().push(format!("write off {offset:#x} len {} ptr%512 {}", buf.len(), buf.as_ptr() as usize % BS));
        }
        self.inner.write_from(offset, buf).await
    }
    async fn fallocate(&self, offset: u64, len: usize, flags: u32) -> Qcow2Result<()> {
        if offset as usize % BS != 0 || len % BS != 0 {
            self.bad.borrow_mut().push(format!("fallocate off {offset:#x} len {len}"));
        }
        self.inner.fallocate(offset, len, flags).await
    }
    async fn fsync(&self, offset: u64, len: usize, flags: u32) -> Qcow2Result<()> {
        self.inner.fsync(offset, len, flags).await
    }
}

#[test]
fn header_update_is_block_aligned() {
    let rt = tokio::runtime::Builder::new_current_thread().enable_all().build().unwrap();
    rt.block_on(async {
        let img = make_temp_qcow2_img(2 << 30, 16, 4);
        let path = img.path().to_path_buf();
        // l1_size (big endian u32 at byte 36) := 1 : only the first 512 MiB are covered
        let mut f = std::fs::OpenOptions::new().write(true).open(&path).unwrap();
        f.seek(SeekFrom::Start(36)).unwrap();
        f.write_all(&1u32.to_be_bytes()).unwrap();
        f.sync_all().unwrap();
        drop(f);

        let bad = Rc::new(RefCell::new(Vec::new()));
        let io = Rec { inner: Qcow2IoSync::new(&path, false, false), bad: bad.clone() };
        let params = qcow2_default_params!(false, false);
        let (dev, _) = qcow2_alloc_dev(&path, io, &params).await.unwrap();
        dev.qcow2_prep_io().await.unwrap();

        let mut buf = Qcow2IoBuf::<u8>::new(4096);
        buf.fill(0x5a);
        dev.write_at(&buf, 600 << 20).await.unwrap();
        dev.flush_meta().await.unwrap();

        let bad = bad.borrow();
        assert!(bad.is_empty(), "unaligned backend requests: {:#?}", *bad);
    });
}

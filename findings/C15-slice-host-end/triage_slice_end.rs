// Triage of HostCluster::rb_slice_host_end(): 32-bit shift truncation when one
// refcount-block slice covers >= 4 GiB of host space.
//
// The backend is a faithful sparse in-memory file: it stores 4 KiB pages, and
// drops pages that are all-zero. The guest data written by the test is all
// zero, so 4+ GiB of host-cluster allocations cost almost no memory, while all
// the meta data (header, L1/L2, reftable, refblocks) is kept exactly.
use qcow2_rs::dev::Qcow2DevParams;
use qcow2_rs::error::Qcow2Result;
use qcow2_rs::ops::Qcow2IoOps;
use qcow2_rs::utils::{make_temp_qcow2_img, qcow2_alloc_dev};
use std::cell::{Cell, RefCell};
use std::collections::HashMap;
use std::path::PathBuf;
use std::sync::atomic::{AtomicU64, AtomicUsize, Ordering};
use std::sync::mpsc;
use std::sync::Arc;
use std::time::Duration;

const PAGE: usize = 4096;
// value of `started` while the discard() call is running
const DISCARD_MARK: usize = 0xd15ca4d;

struct SparseMem {
    pages: RefCell<HashMap<u64, Box<[u8; PAGE]>>>,
    // highest host offset written to (exclusive), like a file size
    host_end: Arc<AtomicU64>,
    bytes_written: Cell<u64>,
}

impl SparseMem {
    fn new(init: &[u8], host_end: Arc<AtomicU64>) -> Self {
        let s = SparseMem {
            pages: RefCell::new(HashMap::new()),
            host_end,
            bytes_written: Cell::new(0),
        };
        s.do_write(0, init);
        s
    }

    fn do_write(&self, offset: u64, buf: &[u8]) {
        let mut pages = self.pages.borrow_mut();
        let mut off = offset;
        let mut rest = buf;
        while !rest.is_empty() {
            let pg = off / PAGE as u64;
            let in_pg = (off % PAGE as u64) as usize;
            let n = std::cmp::min(PAGE - in_pg, rest.len());
            let (chunk, r) = rest.split_at(n);
            rest = r;

            let zero = chunk.iter().all(|b| *b == 0);
            if n == PAGE {
                if zero {
                    pages.remove(&pg);
                } else {
                    let mut p = Box::new([0u8; PAGE]);
                    p.copy_from_slice(chunk);
                    pages.insert(pg, p);
                }
            } else if let Some(p) = pages.get_mut(&pg) {
                p[in_pg..in_pg + n].copy_from_slice(chunk);
                if p.iter().all(|b| *b == 0) {
                    pages.remove(&pg);
                }
            } else if !zero {
                let mut p = Box::new([0u8; PAGE]);
                p[in_pg..in_pg + n].copy_from_slice(chunk);
                pages.insert(pg, p);
            }
            off += n as u64;
        }
        self.host_end
            .fetch_max(offset + buf.len() as u64, Ordering::Relaxed);
        self.bytes_written
            .set(self.bytes_written.get() + buf.len() as u64);
    }

    fn do_read(&self, offset: u64, buf: &mut [u8]) {
        let pages = self.pages.borrow();
        let mut off = offset;
        let mut pos = 0;
        while pos < buf.len() {
            let pg = off / PAGE as u64;
            let in_pg = (off % PAGE as u64) as usize;
            let n = std::cmp::min(PAGE - in_pg, buf.len() - pos);
            match pages.get(&pg) {
                Some(p) => buf[pos..pos + n].copy_from_slice(&p[in_pg..in_pg + n]),
                None => buf[pos..pos + n].fill(0),
            }
            pos += n;
            off += n as u64;
        }
    }
}

impl Qcow2IoOps for SparseMem {
    async fn read_to(&self, offset: u64, buf: &mut [u8]) -> Qcow2Result<usize> {
        self.do_read(offset, buf);
        Ok(buf.len())
    }
    async fn write_from(&self, offset: u64, buf: &[u8]) -> Qcow2Result<()> {
        self.do_write(offset, buf);
        Ok(())
    }
    async fn fallocate(&self, offset: u64, len: usize, _flags: u32) -> Qcow2Result<()> {
        // punch hole / zero range: drop the covered pages
        let mut pages = self.pages.borrow_mut();
        let end = offset + len as u64;
        let first_full = offset.div_ceil(PAGE as u64);
        let last_full = end / PAGE as u64;
        if len > (64 << 20) {
            pages.retain(|k, _| *k < first_full || *k >= last_full);
        } else {
            for pg in first_full..last_full {
                pages.remove(&pg);
            }
        }
        drop(pages);
        // partial head / tail
        let head_end = std::cmp::min(first_full * PAGE as u64, end);
        if head_end > offset {
            let z = vec![0u8; (head_end - offset) as usize];
            self.do_write(offset, &z);
        }
        let tail_start = std::cmp::max(last_full * PAGE as u64, head_end);
        if end > tail_start {
            let z = vec![0u8; (end - tail_start) as usize];
            self.do_write(tail_start, &z);
        }
        Ok(())
    }
    async fn fsync(&self, _offset: u64, _len: usize, _flags: u32) -> Qcow2Result<()> {
        Ok(())
    }
}

#[allow(dead_code)]
#[derive(Debug)]
enum Outcome {
    Done { writes: usize, host_end: u64 },
    WriteErr { idx: usize, err: String },
    FlushErr { err: String },
    ReadBackErr { idx: usize, err: String },
    Hang { started: usize, completed: usize, host_end: u64 },
}

/// Write `total_clusters` clusters of an empty image, `per_write` clusters in
/// each write_at, at increasing guest offsets. Returns what happened.
fn run_case(
    cluster_bits: usize,
    refcount_order: u8,
    rb_cache: Option<(u8, usize)>,
    virt_size: u64,
    per_write: usize,
    total_clusters: usize,
    discard_phase: bool,
    deadline: Duration,
) -> Outcome {
    let started = Arc::new(AtomicUsize::new(0));
    let completed = Arc::new(AtomicUsize::new(0));
    let host_end = Arc::new(AtomicU64::new(0));
    let (tx, rx) = mpsc::channel::<Outcome>();

    let (s2, c2, h2) = (started.clone(), completed.clone(), host_end.clone());
    std::thread::spawn(move || {
        let rt = tokio::runtime::Builder::new_current_thread()
            .enable_all()
            .build()
            .unwrap();
        let out = rt.block_on(async move {
            let img = make_temp_qcow2_img(virt_size, cluster_bits, refcount_order);
            let bytes = std::fs::read(img.path()).unwrap();
            let path = PathBuf::from(img.path());
            let io = SparseMem::new(&bytes, h2.clone());
            let params = Qcow2DevParams::new(9, rb_cache, None, false, false);
            let (dev, _) = qcow2_alloc_dev(&path, io, &params).await.unwrap();
            dev.qcow2_prep_io().await.unwrap();

            let cls = 1usize << cluster_bits;
            let buf = vec![0u8; per_write * cls];
            let nr_writes = total_clusters / per_write;
            for i in 0..nr_writes {
                s2.store(i + 1, Ordering::SeqCst);
                let off = (i * per_write * cls) as u64;
                if let Err(e) = dev.write_at(&buf, off).await {
                    return Outcome::WriteErr {
                        idx: i,
                        err: format!("{:?}", e),
                    };
                }
                c2.store(i + 1, Ordering::SeqCst);
            }
            let mut written = nr_writes * per_write;
            if discard_phase {
                // free one early host cluster (lowers free_cluster_offset into
                // the full first slice), then write two new single clusters
                s2.store(DISCARD_MARK, Ordering::SeqCst);
                let d_idx = std::cmp::min(10, written - 1);
                if let Err(e) = dev.discard((d_idx * cls) as u64, cls as u64).await {
                    return Outcome::WriteErr {
                        idx: usize::MAX,
                        err: format!("discard: {:?}", e),
                    };
                }
                for i in 0..2 {
                    let idx = nr_writes + i;
                    s2.store(idx + 1, Ordering::SeqCst);
                    let off = (written * cls) as u64;
                    if let Err(e) = dev.write_at(&buf[..cls], off).await {
                        return Outcome::WriteErr {
                            idx,
                            err: format!("{:?}", e),
                        };
                    }
                    c2.store(idx + 1, Ordering::SeqCst);
                    written += 1;
                }
            }
            if let Err(e) = dev.flush_meta().await {
                return Outcome::FlushErr {
                    err: format!("{:?}", e),
                };
            }

            // every written cluster must be mapped to a distinct host cluster
            let mut seen = std::collections::HashSet::new();
            for i in 0..written {
                if discard_phase && i == std::cmp::min(10, nr_writes * per_write - 1) {
                    continue;
                }
                let m = match dev.get_mapping((i * cls) as u64).await {
                    Ok(m) => m,
                    Err(e) => {
                        return Outcome::ReadBackErr {
                            idx: i,
                            err: format!("{:?}", e),
                        }
                    }
                };
                let host = match m.cluster_offset {
                    Some(h) => h,
                    None => {
                        return Outcome::ReadBackErr {
                            idx: i,
                            err: format!("no host cluster: {}", m),
                        }
                    }
                };
                if !seen.insert(host) {
                    return Outcome::ReadBackErr {
                        idx: i,
                        err: format!("duplicate mapping {}", m),
                    };
                }
            }
            Outcome::Done {
                writes: nr_writes,
                host_end: h2.load(Ordering::Relaxed),
            }
        });
        let _ = tx.send(out);
    });

    match rx.recv_timeout(deadline) {
        Ok(o) => o,
        Err(_) => Outcome::Hang {
            started: started.load(Ordering::SeqCst),
            completed: completed.load(Ordering::SeqCst),
            host_end: host_end.load(Ordering::Relaxed),
        },
    }
}

fn deadline() -> Duration {
    Duration::from_secs(
        std::env::var("TRIAGE_DEADLINE")
            .ok()
            .and_then(|s| s.parse().ok())
            .unwrap_or(120),
    )
}

fn expect_done(name: &str, o: Outcome) {
    println!("{}: {:x?}", name, o);
    match o {
        Outcome::Done { .. } => {}
        _ => panic!("{}: {:x?}", name, o),
    }
}

// suggested sequence: default geometry for 2 MiB clusters, one cluster per write
#[test]
fn slice_end_2m_single_cluster_writes() {
    let o = run_case(21, 4, None, 16 << 30, 1, 2100, false, deadline());
    expect_done("2M clusters, 1 cluster/write", o);
}

// control: 1 MiB clusters (slice covers 2 GiB), one cluster per write
#[test]
fn slice_end_1m_single_cluster_writes_control() {
    let o = run_case(20, 4, None, 16 << 30, 1, 2100, false, deadline());
    expect_done("1M clusters, 1 cluster/write (control)", o);
}

// 2 MiB clusters, two clusters (4 MiB) per write: allocate_clusters(2) does not
// advance free_cluster_offset, so the allocator has to use "try next slice"
#[test]
fn slice_end_2m_two_cluster_writes() {
    let o = run_case(21, 4, None, 16 << 30, 2, 2100, false, deadline());
    expect_done("2M clusters, 2 clusters/write", o);
}

// control: 1 MiB clusters, two clusters per write, crossing the 2 GiB slice end
#[test]
fn slice_end_1m_two_cluster_writes_control() {
    let o = run_case(20, 4, None, 16 << 30, 2, 2100, false, deadline());
    expect_done("1M clusters, 2 clusters/write (control)", o);
}

// 2 MiB clusters, single-cluster writes only, but one discard in between: the
// discard lowers free_cluster_offset into the (full) first slice
#[test]
fn slice_end_2m_single_cluster_writes_after_discard() {
    let o = run_case(21, 4, None, 16 << 30, 1, 2100, true, deadline());
    expect_done("2M clusters, 1 cluster/write, discard", o);
}

#[test]
fn slice_end_1m_single_cluster_writes_after_discard_control() {
    let o = run_case(20, 4, None, 16 << 30, 1, 2100, true, deadline());
    expect_done("1M clusters, 1 cluster/write, discard (control)", o);
}

// tiny sequence: 4 single-cluster writes, one discard (-> free_clusters)
#[test]
fn slice_end_2m_small_discard() {
    let o = run_case(21, 4, None, 16 << 30, 1, 4, true, deadline());
    expect_done("2M clusters, 4 writes + discard", o);
}

#[test]
fn slice_end_1m_small_discard_control() {
    let o = run_case(20, 4, None, 16 << 30, 1, 4, true, deadline());
    expect_done("1M clusters, 4 writes + discard (control)", o);
}

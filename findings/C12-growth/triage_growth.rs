//! Triage of two suspects against the UNMODIFIED library:
//!
//! H1: refcount table growth (`ensure_refblock_offset` -> `clone_and_grow` +
//!     `grow_reftable` in src/dev/alloc.rs)
//! H2: release of the host clusters of a replaced compressed cluster is not
//!     ordered after the mapping update (`do_write_cow` in src/dev/write.rs)
//!
//! Every test asserts the CORRECT behaviour, so a failing test is a
//! demonstration. The library runs on an in-memory backend which records the
//! request stream; crash states are every prefix of the stream x subsets of
//! the requests issued since the last fsync; each crash image is checked by a
//! checker written against the on-disk format (independent of the library).

use qcow2_rs::dev::{Qcow2Dev, Qcow2DevParams};
use qcow2_rs::error::Qcow2Result;
use qcow2_rs::meta::Qcow2Header;
use qcow2_rs::ops::Qcow2IoOps;
use qcow2_rs::utils::qcow2_alloc_dev;
use std::cell::RefCell;
use std::collections::{BTreeMap, BTreeSet};
use std::path::Path;
use std::rc::Rc;
use std::time::Duration;

const BS: usize = 512;
const POISON: u8 = 0xA5;

// ---------------------------------------------------------------------------
// backend
// ---------------------------------------------------------------------------

#[derive(Clone)]
enum Req {
    Write { off: u64, data: Vec<u8> },
    Zero { off: u64, len: usize },
    Fsync,
}

struct Disk {
    cur: Vec<u8>,
    /// per 512 byte block: has it ever been written / zeroed
    init: Vec<bool>,
    log: Vec<Req>,
    /// requests entered but not completed
    inflight: usize,
    reads: usize,
}

#[derive(Clone)]
struct MemIo(Rc<RefCell<Disk>>);

fn mark_init(init: &mut [bool], off: usize, len: usize) {
    // only blocks which are covered completely
    let first = off.div_ceil(BS);
    let last = (off + len) / BS;
    if first < last {
        init[first..last].fill(true);
    }
}

impl MemIo {
    fn new(cur: Vec<u8>, init: Vec<bool>) -> Self {
        assert_eq!(cur.len(), init.len() * BS);
        MemIo(Rc::new(RefCell::new(Disk {
            cur,
            init,
            log: Vec::new(),
            inflight: 0,
            reads: 0,
        })))
    }

    /// Everything issued so far is considered durable (caller just fsynced):
    /// return the image + init map and restart the request log.
    fn checkpoint(&self) -> (Vec<u8>, Vec<bool>) {
        let mut d = self.0.borrow_mut();
        d.log.clear();
        (d.cur.clone(), d.init.clone())
    }

    fn log(&self) -> Vec<Req> {
        self.0.borrow().log.clone()
    }

    fn bytes(&self) -> Vec<u8> {
        self.0.borrow().cur.clone()
    }

    fn init_map(&self) -> Vec<bool> {
        self.0.borrow().init.clone()
    }

    /// (requests in flight, requests issued so far incl. reads)
    fn activity(&self) -> (usize, usize) {
        let d = self.0.borrow();
        (d.inflight, d.log.len() + d.reads)
    }
}

impl Qcow2IoOps for MemIo {
    async fn read_to(&self, offset: u64, buf: &mut [u8]) -> Qcow2Result<usize> {
        let mut d = self.0.borrow_mut();
        d.inflight += 1;
        let off = offset as usize;
        assert!(off + buf.len() <= d.cur.len(), "read beyond device");
        buf.copy_from_slice(&d.cur[off..off + buf.len()]);
        d.reads += 1;
        d.inflight -= 1;
        Ok(buf.len())
    }

    async fn write_from(&self, offset: u64, buf: &[u8]) -> Qcow2Result<()> {
        let mut d = self.0.borrow_mut();
        d.inflight += 1;
        let off = offset as usize;
        // the header is written with its serialized length (120 bytes), so
        // unaligned lengths have to be accepted here
        assert!(off % BS == 0, "unaligned write offset");
        assert!(off + buf.len() <= d.cur.len(), "write beyond device");
        d.cur[off..off + buf.len()].copy_from_slice(buf);
        mark_init(&mut d.init, off, buf.len());
        d.log.push(Req::Write {
            off: offset,
            data: buf.to_vec(),
        });
        d.inflight -= 1;
        Ok(())
    }

    async fn fallocate(&self, offset: u64, len: usize, _flags: u32) -> Qcow2Result<()> {
        let mut d = self.0.borrow_mut();
        d.inflight += 1;
        let off = offset as usize;
        assert!(off % BS == 0 && len % BS == 0, "unaligned fallocate");
        assert!(off + len <= d.cur.len(), "fallocate beyond device");
        d.cur[off..off + len].fill(0);
        mark_init(&mut d.init, off, len);
        d.log.push(Req::Zero { off: offset, len });
        d.inflight -= 1;
        Ok(())
    }

    async fn fsync(&self, _offset: u64, _len: usize, _flags: u32) -> Qcow2Result<()> {
        // like every in-tree backend: whole-device barrier
        self.0.borrow_mut().log.push(Req::Fsync);
        Ok(())
    }
}

/// Build a device: formatted qcow2 meta (header, reftable, first refblock,
/// zeroed l1 table); everything else is poison and "never written".
fn make_disk(disk_size: usize, virt_size: u64, cluster_bits: usize) -> MemIo {
    let (rc_t, rc_b, l1) = Qcow2Header::calculate_meta_params(virt_size, cluster_bits, 4, BS);
    let formatted = ((1 + rc_t.1 + rc_b.1 + l1.1) as usize) << cluster_bits;
    assert!(formatted < disk_size);

    let mut img = vec![POISON; disk_size];
    img[..formatted].fill(0);
    Qcow2Header::format_qcow2(&mut img[..formatted], virt_size, cluster_bits, 4, BS).unwrap();

    let mut init = vec![false; disk_size / BS];
    init[..formatted / BS].fill(true);
    MemIo::new(img, init)
}

// ---------------------------------------------------------------------------
// independent checker
// ---------------------------------------------------------------------------

fn be32(b: &[u8], off: usize) -> u64 {
    u32::from_be_bytes(b[off..off + 4].try_into().unwrap()) as u64
}

fn be64(b: &[u8], off: usize) -> u64 {
    u64::from_be_bytes(b[off..off + 8].try_into().unwrap())
}

/// host clusters touched by the compressed cluster described by l2 entry `e`
fn compressed_clusters(e: u64, cluster_bits: usize) -> (u64, u64, std::ops::RangeInclusive<u64>) {
    let off_bits = 62 - (cluster_bits as u64 - 8);
    let coff = e & ((1u64 << off_bits) - 1);
    let nsec = ((e & 0x3fff_ffff_ffff_ffff) >> off_bits) + 1;
    let csize = nsec * 512 - (coff & 511);
    (
        coff,
        csize,
        (coff >> cluster_bits)..=((coff + csize - 1) >> cluster_bits),
    )
}

/// Independent checker of one crash image
fn check_image(img: &[u8], init: &[bool]) -> Result<(), String> {
    Qcow2Header::from_buf(&img[..4096]).map_err(|e| format!("header does not parse: {e:?}"))?;

    let cluster_bits = be32(img, 20) as usize;
    let l1_entries = be32(img, 36) as usize;
    let l1_off = be64(img, 40);
    let rt_off = be64(img, 48);
    let rt_clusters = be32(img, 56) as usize;
    let refcount_order = be32(img, 96);
    assert_eq!(refcount_order, 4, "checker only handles 16bit refcounts");

    let cs = 1usize << cluster_bits;
    let cmask = (cs - 1) as u64;
    let disk = img.len() as u64;

    let table_ok = |what: &str, off: u64, bytes: usize| -> Result<(), String> {
        if off & cmask != 0 {
            return Err(format!("{what}: offset {off:#x} is not cluster aligned"));
        }
        if off == 0 || off + bytes as u64 > disk {
            return Err(format!("{what}: offset {off:#x} is out of range"));
        }
        let first = off as usize / BS;
        let last = (off as usize + bytes).div_ceil(BS);
        if let Some(b) = (first..last).find(|b| !init[*b]) {
            return Err(format!(
                "{what}: table at {off:#x} is not initialised (block {:#x} never reached the disk)",
                b * BS
            ));
        }
        Ok(())
    };

    // cluster index -> (number of references, who)
    let mut refs: BTreeMap<u64, (u64, String)> = BTreeMap::new();
    let mut add_ref = |off: u64, who: String| {
        let e = refs.entry(off >> cluster_bits).or_insert((0, who));
        e.0 += 1;
    };

    add_ref(0, "header".into());

    // refcount table
    table_ok(
        &format!("reftable ({rt_clusters} cluster(s))"),
        rt_off,
        rt_clusters * cs,
    )?;
    for i in 0..rt_clusters {
        add_ref(rt_off + (i * cs) as u64, "reftable".into());
    }
    let rt_entries = rt_clusters * cs / 8;
    for i in 0..rt_entries {
        let e = be64(img, rt_off as usize + i * 8);
        if e == 0 {
            continue;
        }
        if e & 0x1ff != 0 {
            return Err(format!("reftable[{i}] = {e:#x}: reserved bits set"));
        }
        table_ok(&format!("reftable[{i}] = {e:#x}"), e, cs)?;
        add_ref(e, format!("refblock {i}"));
    }

    // l1 / l2
    let l1_bytes = (l1_entries * 8).div_ceil(BS) * BS;
    table_ok("l1 table", l1_off, l1_bytes)?;
    for i in 0..l1_bytes.div_ceil(cs) {
        add_ref(l1_off + (i * cs) as u64, "l1 table".into());
    }
    for i in 0..l1_entries {
        let e = be64(img, l1_off as usize + i * 8);
        if e == 0 {
            continue;
        }
        if e & 0x7f00_0000_0000_01fe != 0 {
            return Err(format!("l1[{i}] = {e:#x}: reserved bits set"));
        }
        let l2_off = e & 0x00ff_ffff_ffff_fe00;
        table_ok(&format!("l1[{i}] = {e:#x}"), l2_off, cs)?;
        add_ref(l2_off, format!("l2 table of l1[{i}]"));

        for j in 0..cs / 8 {
            let l2e = be64(img, l2_off as usize + j * 8);
            if l2e == 0 {
                continue;
            }
            let guest = i * (cs / 8) + j;
            let what = format!("l1[{i}]/l2[{j}] = {l2e:#x}");
            if l2e & (1 << 62) != 0 {
                let (coff, csize, clusters) = compressed_clusters(l2e, cluster_bits);
                if coff + csize > disk {
                    return Err(format!("{what}: compressed data out of range"));
                }
                for c in clusters {
                    add_ref(
                        c << cluster_bits,
                        format!(
                            "compressed data {coff:#x}+{csize} of guest cluster {guest} ({what})"
                        ),
                    );
                }
                continue;
            }
            if l2e & 0x3f00_0000_0000_01fe != 0 {
                return Err(format!("{what}: reserved bits set"));
            }
            let data_off = l2e & 0x00ff_ffff_ffff_fe00;
            if data_off == 0 {
                continue;
            }
            if data_off & cmask != 0 {
                return Err(format!("{what}: data offset is not cluster aligned"));
            }
            if data_off + cs as u64 > disk {
                return Err(format!("{what}: data offset out of range"));
            }
            add_ref(data_off, format!("data cluster of guest cluster {guest}"));
        }
    }

    // stored refcount must never be lower than the number of references
    let rb_entries = cs * 8 / 16;
    for (cluster, (cnt, who)) in refs.iter() {
        let rt_idx = *cluster as usize / rb_entries;
        let rb_off = if rt_idx < rt_entries {
            be64(img, rt_off as usize + rt_idx * 8)
        } else {
            0
        };
        let stored = if rb_off == 0 {
            0
        } else {
            let o = rb_off as usize + (*cluster as usize % rb_entries) * 2;
            u16::from_be_bytes(img[o..o + 2].try_into().unwrap()) as u64
        };
        if stored < *cnt {
            let why = if rb_off == 0 {
                format!(" (reftable[{rt_idx}] is 0 on disk)")
            } else {
                String::new()
            };
            return Err(format!(
                "host cluster {:#x} ({who}) is referenced {cnt} time(s) but its stored refcount is {stored}{why}",
                cluster << cluster_bits
            ));
        }
    }

    Ok(())
}

/// clusters which hold meta data in this (consistent) image
fn meta_clusters(img: &[u8], set: &mut BTreeSet<u64>) {
    let cluster_bits = be32(img, 20) as usize;
    let cs = 1usize << cluster_bits;
    let l1_entries = be32(img, 36) as usize;
    let l1_off = be64(img, 40);
    let rt_off = be64(img, 48);
    let rt_clusters = be32(img, 56) as usize;
    let clusters = (img.len() >> cluster_bits) as u64;

    set.insert(0);
    for i in 0..rt_clusters {
        set.insert((rt_off >> cluster_bits) + i as u64);
    }
    for i in 0..rt_clusters * cs / 8 {
        let o = rt_off as usize + i * 8;
        if o + 8 > img.len() {
            break;
        }
        let e = be64(img, o);
        // (a table full of garbage must not make everything meta data)
        if e != 0 && e & cmask_of(cluster_bits) == 0 && (e >> cluster_bits) < clusters {
            set.insert(e >> cluster_bits);
        }
    }
    for i in 0..(l1_entries * 8).div_ceil(cs) {
        set.insert((l1_off >> cluster_bits) + i as u64);
    }
    for i in 0..l1_entries {
        let e = be64(img, l1_off as usize + i * 8) & 0x00ff_ffff_ffff_fe00;
        if e != 0 {
            set.insert(e >> cluster_bits);
        }
    }
}

fn cmask_of(cluster_bits: usize) -> u64 {
    (1u64 << cluster_bits) - 1
}

// ---------------------------------------------------------------------------
// crash state exploration
// ---------------------------------------------------------------------------

/// one independently persistable unit
struct Unit {
    req_idx: usize,
    off: usize,
    data: Option<Vec<u8>>, // None: zero range
    len: usize,
    meta: bool,
}

impl Unit {
    fn name(&self) -> String {
        let kind = if self.data.is_some() { "write" } else { "zero" };
        format!("#{} {kind} {:#x}+{}", self.req_idx, self.off, self.len)
    }
}

type Undo = Vec<(usize, Vec<u8>, Vec<bool>)>;

fn apply(img: &mut [u8], init: &mut [bool], u: &Unit, undo: Option<&mut Undo>) {
    let (b0, b1) = (u.off / BS, (u.off + u.len).div_ceil(BS));
    if let Some(undo) = undo {
        undo.push((
            u.off,
            img[u.off..u.off + u.len].to_vec(),
            init[b0..b1].to_vec(),
        ));
    }
    match &u.data {
        Some(d) => img[u.off..u.off + u.len].copy_from_slice(d),
        None => img[u.off..u.off + u.len].fill(0),
    }
    mark_init(init, u.off, u.len);
}

fn revert(img: &mut [u8], init: &mut [bool], undo: Undo) {
    for (off, bytes, ini) in undo.into_iter().rev() {
        img[off..off + bytes.len()].copy_from_slice(&bytes);
        init[off / BS..off / BS + ini.len()].copy_from_slice(&ini);
    }
}

struct Failure {
    req_idx: usize,
    msg: String,
}

struct Report {
    failures: Vec<Failure>,
    checked: usize,
}

fn req_name(log: &[Req], i: usize) -> String {
    match &log[i] {
        Req::Write { off, data } => format!("#{i} write {off:#x}+{}", data.len()),
        Req::Zero { off, len } => format!("#{i} zero {off:#x}+{len}"),
        Req::Fsync => format!("#{i} fsync"),
    }
}

/// Replay the request log and check crash states. Reports the first unsafe
/// crash state found for every request (crash point), at most `max_fail`.
fn explore(
    initial: &[u8],
    init0: &[bool],
    log: &[Req],
    final_img: &[u8],
    max_fail: usize,
) -> Report {
    let cluster_bits = be32(initial, 20) as usize;
    let mut meta = BTreeSet::new();
    meta_clusters(initial, &mut meta);
    meta_clusters(final_img, &mut meta);
    let is_meta = |off: usize, len: usize| -> bool {
        let first = (off >> cluster_bits) as u64;
        let last = ((off + len - 1) >> cluster_bits) as u64;
        (first..=last).any(|c| meta.contains(&c))
    };

    let mut img = initial.to_vec();
    let mut init = init0.to_vec();
    let mut pending: Vec<Unit> = Vec::new();
    let mut rep = Report {
        failures: Vec::new(),
        checked: 1,
    };

    if let Err(e) = check_image(&img, &init) {
        rep.failures.push(Failure {
            req_idx: 0,
            msg: format!("initial image: {e}"),
        });
        return rep;
    }

    for (idx, req) in log.iter().enumerate() {
        if rep.failures.len() >= max_fail {
            break;
        }
        match req {
            Req::Fsync => {
                for u in pending.drain(..) {
                    apply(&mut img, &mut init, &u, None);
                }
                rep.checked += 1;
                if let Err(e) = check_image(&img, &init) {
                    rep.failures.push(Failure {
                        req_idx: idx,
                        msg: format!(
                            "after {} completed (everything durable): {e}",
                            req_name(log, idx)
                        ),
                    });
                }
                continue;
            }
            Req::Zero { off, len } => pending.push(Unit {
                req_idx: idx,
                off: *off as usize,
                data: None,
                len: *len,
                meta: is_meta(*off as usize, *len),
            }),
            Req::Write { off, data } => {
                if data.len() <= 4096 {
                    // meta data sized write: may be torn at block granularity
                    for (b, chunk) in data.chunks(BS).enumerate() {
                        let o = *off as usize + b * BS;
                        let l = chunk.len();
                        let overlaps_pending =
                            pending.iter().any(|u| u.off < o + l && o < u.off + u.len);
                        if !overlaps_pending && img[o..o + l] == *chunk && init[o / BS] {
                            // nothing changes no matter if it is persisted
                            continue;
                        }
                        pending.push(Unit {
                            req_idx: idx,
                            off: o,
                            data: Some(chunk.to_vec()),
                            len: l,
                            meta: is_meta(o, l),
                        });
                    }
                } else {
                    pending.push(Unit {
                        req_idx: idx,
                        off: *off as usize,
                        data: Some(data.clone()),
                        len: data.len(),
                        meta: is_meta(*off as usize, data.len()),
                    });
                }
            }
        }

        // Crash right after this request was issued. Subsets without any
        // unit of the newest request were covered by the previous prefix;
        // data-only requests do not change what the checker looks at.
        let m: Vec<usize> = (0..pending.len()).filter(|i| pending[*i].meta).collect();
        let d: Vec<usize> = (0..pending.len()).filter(|i| !pending[*i].meta).collect();
        let newest: Vec<usize> = m
            .iter()
            .copied()
            .filter(|i| pending[*i].req_idx == idx)
            .collect();
        if newest.is_empty() {
            continue;
        }

        let mut sets: Vec<Vec<usize>> = Vec::new();
        if m.len() <= 12 {
            for mask in 0..(1u32 << m.len()) {
                let s: Vec<usize> = (0..m.len())
                    .filter(|b| mask & (1 << b) != 0)
                    .map(|b| m[b])
                    .collect();
                if s.iter().any(|i| pending[*i].req_idx == idx) {
                    sets.push(s);
                }
            }
        } else {
            let others: Vec<usize> = m
                .iter()
                .copied()
                .filter(|i| pending[*i].req_idx != idx)
                .collect();
            let other_reqs: BTreeSet<usize> = others.iter().map(|i| pending[*i].req_idx).collect();
            sets.push(m.clone());
            sets.push(newest.clone());
            for r in other_reqs {
                // newest request + one older request
                let mut s: Vec<usize> = others
                    .iter()
                    .copied()
                    .filter(|i| pending[*i].req_idx == r)
                    .collect();
                s.extend(newest.iter());
                sets.push(s);
                // everything except one older request
                sets.push(
                    m.iter()
                        .copied()
                        .filter(|i| pending[*i].req_idx != r)
                        .collect(),
                );
            }
            for u in &newest {
                sets.push(vec![*u]);
                sets.push(m.iter().copied().filter(|i| i != u).collect());
            }
        }

        'sets: for s in sets {
            for with_data in [false, true] {
                if with_data && d.is_empty() {
                    continue;
                }
                let mut undo = Undo::new();
                // request order is kept: pending is ordered by issue time
                let mut chosen: Vec<usize> = s.clone();
                if with_data {
                    chosen.extend(d.iter());
                }
                chosen.sort();
                for i in &chosen {
                    apply(&mut img, &mut init, &pending[*i], Some(&mut undo));
                }
                rep.checked += 1;
                let res = check_image(&img, &init);
                revert(&mut img, &mut init, undo);

                if let Err(e) = res {
                    let persisted: Vec<String> = s.iter().map(|i| pending[*i].name()).collect();
                    let lost: Vec<String> = m
                        .iter()
                        .filter(|i| !s.contains(i))
                        .map(|i| pending[*i].name())
                        .collect();
                    rep.failures.push(Failure {
                        req_idx: idx,
                        msg: format!(
                            "crash after request {}:\n      persisted: {persisted:?}\n      lost:      {lost:?}\n      data units ({} un-synced): {}\n      checker:   {e}",
                            req_name(log, idx),
                            d.len(),
                            if with_data { "all persisted" } else { "all lost" },
                        ),
                    });
                    break 'sets;
                }
            }
        }
    }

    rep
}

/// print the request log, runs of data-only requests collapsed
fn dump_log(initial: &[u8], final_img: &[u8], log: &[Req]) {
    let cluster_bits = be32(initial, 20) as usize;
    let mut meta = BTreeSet::new();
    meta_clusters(initial, &mut meta);
    meta_clusters(final_img, &mut meta);
    let mut data_run = 0usize;
    for (i, r) in log.iter().enumerate() {
        let (off, len) = match r {
            Req::Write { off, data } => (*off as usize, data.len()),
            Req::Zero { off, len } => (*off as usize, *len),
            Req::Fsync => (0, 0),
        };
        let is_data = len != 0
            && !((off >> cluster_bits) as u64..=((off + len - 1) >> cluster_bits) as u64)
                .any(|c| meta.contains(&c));
        if is_data {
            data_run += 1;
            continue;
        }
        if data_run > 0 {
            eprintln!("    ... {data_run} data cluster request(s) ...");
            data_run = 0;
        }
        eprintln!("    {}", req_name(log, i));
    }
    if data_run > 0 {
        eprintln!("    ... {data_run} data cluster request(s) ...");
    }
}

// ---------------------------------------------------------------------------
// helpers
// ---------------------------------------------------------------------------

fn runtime() -> tokio::runtime::Runtime {
    tokio::runtime::Builder::new_current_thread()
        .enable_all()
        .build()
        .unwrap()
}

async fn open(io: &MemIo, name: &str, params: &Qcow2DevParams) -> Qcow2Dev<MemIo> {
    let (dev, _) = qcow2_alloc_dev(Path::new(name), io.clone(), params)
        .await
        .unwrap();
    dev.qcow2_prep_io().await.unwrap();
    dev
}

async fn host_off(dev: &Qcow2Dev<MemIo>, guest: u64) -> u64 {
    dev.get_mapping(guest)
        .await
        .unwrap()
        .cluster_offset
        .expect("cluster must be mapped")
}

async fn sync_all(dev: &Qcow2Dev<MemIo>) {
    dev.flush_meta().await.unwrap();
    dev.fsync_range(0, usize::MAX).await.unwrap();
}

// ---------------------------------------------------------------------------
// H1: refcount table growth
// ---------------------------------------------------------------------------
//
// 512 byte clusters, 16 bit refcounts: one refblock = 256 entries = 128KB of
// host space, one reftable cluster = 64 entries = 8MB of host space. The
// formatter gives an 8MB image exactly one reftable cluster, but the image
// needs 16384 data clusters + 256 l2 tables + 65 refblocks + l1 + header, so
// writing it sequentially walks off the end of the refcount table.

const H1_CB: usize = 9;
const H1_CS: u64 = 1 << H1_CB;
const H1_RB_ENTRIES: u64 = 256;
const H1_RT_ENTRIES: u64 = 64;
const H1_VSIZE: u64 = 8 << 20;
const H1_DISK: usize = 10 << 20;
/// first host offset which is not covered by the formatted reftable
const H1_LIMIT: u64 = H1_RT_ENTRIES * H1_RB_ENTRIES * H1_CS;

struct H1Run {
    io: MemIo,
    initial: Vec<u8>,
    init0: Vec<bool>,
    /// guest cluster whose write_at did not complete (None: all completed)
    stuck_at: Option<u64>,
    /// highest host offset handed out in phase 2
    max_host: u64,
    /// observations made while the stuck write_at future was still alive
    probe: Vec<String>,
}

/// Phase 1 (made durable, not explored): write guest clusters sequentially
/// until allocation is 8 clusters away from the end of the reftable coverage.
/// Phase 2: go on writing, every write_at under a timeout, until allocation
/// has moved past the coverage (or a write does not complete).
fn h1_run(name: &str) -> H1Run {
    let io = make_disk(H1_DISK, H1_VSIZE, H1_CB);
    {
        let img = io.bytes();
        assert_eq!(
            (be64(&img, 48), be32(&img, 56)),
            (H1_CS, 1),
            "formatter: reftable is one cluster at cluster 1"
        );
    }

    runtime().block_on(async {
        let params = Qcow2DevParams::new(9, None, None, false, false);
        let dev = open(&io, name, &params).await;

        let mut g = 0u64;
        loop {
            let buf = vec![0x11u8; BS];
            dev.write_at(&buf, g << H1_CB).await.unwrap();
            let h = host_off(&dev, g << H1_CB).await;
            g += 1;
            if h >= H1_LIMIT - 8 * H1_CS {
                break;
            }
        }
        sync_all(&dev).await;
        let (initial, init0) = io.checkpoint();
        eprintln!(
            "{name}: phase 1 wrote guest clusters 0..{g}, host file used up to {:#x} (reftable covers {:#x})",
            host_off(&dev, (g - 1) << H1_CB).await + H1_CS,
            H1_LIMIT
        );

        let mut stuck_at = None;
        let mut max_host = 0;
        let mut probe = Vec::new();
        let total = H1_VSIZE >> H1_CB;
        while g < total {
            let buf = vec![0x22u8; BS];
            let mut fut = Box::pin(dev.write_at(&buf, g << H1_CB));
            match tokio::time::timeout(Duration::from_secs(2), &mut fut).await {
                Ok(res) => {
                    drop(fut);
                    res.unwrap_or_else(|e| panic!("{name}: write_at guest cluster {g}: {e:?}"));
                    max_host = max_host.max(host_off(&dev, g << H1_CB).await);
                    g += 1;
                    if max_host >= H1_LIMIT + 16 * H1_CS {
                        break;
                    }
                }
                Err(_) => {
                    stuck_at = Some(g);
                    // the stuck future is still alive (its guards are held):
                    // look at the device from the outside
                    let (inflight, issued) = io.activity();
                    tokio::time::sleep(Duration::from_millis(500)).await;
                    let (inflight2, issued2) = io.activity();
                    probe.push(format!(
                        "backend at the timeout: {inflight} request(s) in flight, {issued} issued; 500ms later: {inflight2} in flight, {issued2} issued"
                    ));

                    // reading an already mapped cluster needs no allocator lock
                    let mut rbuf = vec![0u8; BS];
                    let r = tokio::time::timeout(Duration::from_secs(1), dev.read_at(&mut rbuf, 0))
                        .await;
                    probe.push(format!(
                        "read_at(guest 0) while the write is stuck: {}",
                        match r {
                            Ok(Ok(_)) => format!("completed, first byte {:#x}", rbuf[0]),
                            Ok(Err(e)) => format!("error {e:?}"),
                            Err(_) => "TIMEOUT".to_string(),
                        }
                    ));
                    // another allocating write needs self.reftable.read()
                    let wbuf = vec![0x33u8; BS];
                    let r = tokio::time::timeout(
                        Duration::from_secs(1),
                        dev.write_at(&wbuf, (total - 1) << H1_CB),
                    )
                    .await;
                    probe.push(format!(
                        "write_at(last guest cluster, unallocated) while the write is stuck: {}",
                        match r {
                            Ok(Ok(_)) => "completed".to_string(),
                            Ok(Err(e)) => format!("error {e:?}"),
                            Err(_) => "TIMEOUT (allocator is locked)".to_string(),
                        }
                    ));
                    let r = tokio::time::timeout(Duration::from_secs(1), &mut fut).await;
                    probe.push(format!(
                        "the stuck write_at after 1 more second: {}",
                        if r.is_ok() { "completed" } else { "still pending" }
                    ));
                    break;
                }
            }
        }

        H1Run {
            io: io.clone(),
            initial,
            init0,
            stuck_at,
            max_host,
            probe,
        }
    })
}

fn h1_describe_disk(name: &str, run: &H1Run) {
    let img = run.io.bytes();
    let init = run.io.init_map();
    let rt_off = be64(&img, 48);
    let rt_clusters = be32(&img, 56);
    eprintln!(
        "{name}: header on disk now: reftable offset {rt_off:#x}, {rt_clusters} cluster(s) (was {:#x}, {})",
        be64(&run.initial, 48),
        be32(&run.initial, 56)
    );
    if rt_off == be64(&run.initial, 48) {
        return;
    }
    let log = run.io.log();
    let old_rt = be64(&run.initial, 48) as usize;
    let old_nonzero = (0..H1_RT_ENTRIES as usize)
        .filter(|i| be64(&img, old_rt + i * 8) != 0)
        .count();
    eprintln!(
        "{name}:   old reftable at {old_rt:#x} (still on disk): {old_nonzero} of 64 entries point to refblocks"
    );
    for b in 0..(rt_clusters * H1_CS / BS as u64) {
        let o = (rt_off + b * BS as u64) as usize;
        let how = if log.iter().any(
            |r| matches!(r, Req::Write { off, data } if (*off as usize) <= o && o < *off as usize + data.len()),
        ) {
            "written by a table write"
        } else if init[o / BS] {
            "NEVER WRITTEN as a table, only covered by the zero range request"
        } else {
            "NEVER WRITTEN (still the poison pattern)"
        };
        let nonzero = (0..BS / 8)
            .filter(|i| be64(&img, o + i * 8) != 0)
            .collect::<Vec<_>>();
        let show = |v: &[usize]| {
            v.iter()
                .map(|i| format!("[{}] = {:#x}", b as usize * 64 + i, be64(&img, o + i * 8)))
                .collect::<Vec<_>>()
                .join(", ")
        };
        eprintln!(
            "{name}:   new reftable block {b} at {o:#x} (entries {}..{}): {how}; {} of 64 entries are non zero: {}{}",
            b * 64,
            b * 64 + 63,
            nonzero.len(),
            show(&nonzero[..nonzero.len().min(3)]),
            if nonzero.len() > 3 {
                format!(" ... {}", show(&nonzero[nonzero.len() - 2..]))
            } else {
                String::new()
            }
        );
    }
}

/// H1 (b): the write which triggers the growth must complete.
#[test]
fn h1b_write_that_grows_the_reftable_completes() {
    let name = "h1b";
    let run = h1_run(name);
    let log = run.io.log();

    eprintln!("{name}: request log since the last flush_meta + fsync:");
    dump_log(&run.initial, &run.io.bytes(), &log);
    h1_describe_disk(name, &run);
    for p in &run.probe {
        eprintln!("{name}: {p}");
    }

    if let Some(g) = run.stuck_at {
        panic!(
            "{name}: write_at(guest cluster {g}) did not complete within 2s; last request issued: {}; {}",
            req_name(&log, log.len() - 1),
            run.probe.join("; ")
        );
    }
    assert!(run.max_host >= H1_LIMIT, "growth was not reached");
}

/// H1 (a): every crash state on the way through the growth must be a usable
/// image, and so must be the image when everything issued reached the disk.
#[test]
fn h1a_reftable_growth_crash_states_are_safe() {
    let name = "h1a";
    let run = h1_run(name);
    let log = run.io.log();
    let final_img = run.io.bytes();
    let final_init = run.io.init_map();

    eprintln!(
        "{name}: phase 2 {} (max host offset handed out {:#x})",
        match run.stuck_at {
            Some(g) => format!("stopped: write_at(guest cluster {g}) did not complete"),
            None => "completed".to_string(),
        },
        run.max_host
    );
    eprintln!("{name}: request log since the last flush_meta + fsync:");
    dump_log(&run.initial, &final_img, &log);
    h1_describe_disk(name, &run);

    let rep = explore(&run.initial, &run.init0, &log, &final_img, 6);
    eprintln!(
        "{name}: requests {} crash states checked {} unsafe crash points reported {}",
        log.len(),
        rep.checked,
        rep.failures.len()
    );
    for f in &rep.failures {
        eprintln!("{name}: UNSAFE [{}] {}", f.req_idx, f.msg);
    }
    let final_res = check_image(&final_img, &final_init);
    eprintln!(
        "{name}: image with EVERYTHING issued so far persisted (no crash, no loss): {final_res:?}"
    );

    assert!(
        rep.failures.is_empty(),
        "{name}: unsafe crash image: {}",
        rep.failures[0].msg.replace('\n', " ")
    );
    final_res.unwrap_or_else(|e| panic!("{name}: fully persisted image is bad: {e}"));
}

// ---------------------------------------------------------------------------
// H2: COW of a compressed cluster
// ---------------------------------------------------------------------------

const H2_CB: usize = 16;
const H2_CS: u64 = 1 << H2_CB;
const H2_VSIZE: u64 = 64 << 20;
const H2_DISK: usize = 16 << H2_CB;

/// moderately compressible cluster content
fn guest_data(seed: u32) -> Vec<u8> {
    let mut x = seed;
    (0..H2_CS as usize)
        .map(|i| {
            if i % 16 == 0 {
                x = x.wrapping_mul(1664525).wrapping_add(1013904223);
            }
            if i % 16 < 2 {
                (x >> (8 * (i % 16) + 8)) as u8
            } else {
                (i % 16) as u8
            }
        })
        .collect()
}

/// Put a compressed cluster at `coff`, return its L2 entry and length
fn put_compressed(file: &mut [u8], coff: u64, plain: &[u8]) -> (u64, u64) {
    let c = miniz_oxide::deflate::compress_to_vec(plain, 6);
    assert!(c.len() < H2_CS as usize);
    let end = coff as usize + c.len();
    file[coff as usize..end].copy_from_slice(&c);

    let sectors = (c.len() as u64 - 1 + (coff & 511)) / 512;
    let off_bits = 62 - (H2_CB as u64 - 8);
    ((1u64 << 62) | (sectors << off_bits) | coff, c.len() as u64)
}

struct H2Image {
    io: MemIo,
    d0: Vec<u8>,
    d1: Vec<u8>,
}

/// cluster 0 header, 1 reftable, 2 refblock, 3 l1 (from the formatter),
/// cluster 4 l2 table; guest cluster 0 is compressed, its data starts 100
/// bytes before the end of host cluster 5 and continues in host cluster 6;
/// guest cluster 1 is compressed and lives in host cluster 6 behind it.
/// Refcounts: 4 -> 1, 5 -> 1, 6 -> 2. Everything behind is poison.
fn h2_build() -> H2Image {
    let io = make_disk(H2_DISK, H2_VSIZE, H2_CB);
    let mut file = io.bytes();
    let mut init = io.init_map();
    assert_eq!((be64(&file, 48), be64(&file, 40)), (H2_CS, 3 * H2_CS));
    let rb_off = 2 * H2_CS as usize;

    file[4 * H2_CS as usize..7 * H2_CS as usize].fill(0);
    init[4 * H2_CS as usize / BS..7 * H2_CS as usize / BS].fill(true);

    let d0 = guest_data(1);
    let d1 = guest_data(2);
    let coff0 = 6 * H2_CS - 100;
    let (e0, len0) = put_compressed(&mut file, coff0, &d0);
    let coff1 = (coff0 + len0 + 511) & !511;
    let (e1, len1) = put_compressed(&mut file, coff1, &d1);
    eprintln!("h2: compressed guest 0 at {coff0:#x}+{len0} (l2 entry {e0:#x}), guest 1 at {coff1:#x}+{len1} (l2 entry {e1:#x})");
    assert!(len0 > 100 && coff1 + len1 + 512 < 7 * H2_CS);

    let l2_off = 4 * H2_CS;
    file[l2_off as usize..l2_off as usize + 8].copy_from_slice(&e0.to_be_bytes());
    file[l2_off as usize + 8..l2_off as usize + 16].copy_from_slice(&e1.to_be_bytes());
    file[3 * H2_CS as usize..3 * H2_CS as usize + 8]
        .copy_from_slice(&((1u64 << 63) | l2_off).to_be_bytes());
    for (cluster, cnt) in [(4usize, 1u16), (5, 1), (6, 2)] {
        file[rb_off + cluster * 2..rb_off + cluster * 2 + 2].copy_from_slice(&cnt.to_be_bytes());
    }

    check_image(&file, &init).expect("hand built image must be consistent");
    H2Image {
        io: MemIo::new(file, init),
        d0,
        d1,
    }
}

/// H2: partial write into a compressed cluster, then flush_meta. Every crash
/// state from the start of the write to the end of flush_meta has to keep
/// stored refcount >= references (a compressed cluster references every host
/// cluster its bytes touch).
#[test]
fn h2_compressed_cow_release_is_ordered_after_the_mapping_update() {
    let name = "h2";
    let im = h2_build();
    let io = im.io.clone();
    let (initial, init0) = io.checkpoint();

    runtime().block_on(async {
        let params = Qcow2DevParams::new(9, None, None, false, false);
        let dev = open(&io, "mem-h2", &params).await;

        let mut rbuf = vec![0u8; 2 * H2_CS as usize];
        dev.read_at(&mut rbuf, 0).await.unwrap();
        assert!(rbuf[..H2_CS as usize] == im.d0[..] && rbuf[H2_CS as usize..] == im.d1[..]);

        let wbuf = vec![0xc3u8; 4096];
        dev.write_at(&wbuf, 8192).await.unwrap();
        eprintln!(
            "{name}: write_at done, {} requests so far; guest 0 -> host {:#x}",
            io.log().len(),
            host_off(&dev, 0).await
        );
        sync_all(&dev).await;

        let mut want0 = im.d0.clone();
        want0[8192..8192 + 4096].fill(0xc3);
        dev.read_at(&mut rbuf, 0).await.unwrap();
        assert!(rbuf[..H2_CS as usize] == want0[..] && rbuf[H2_CS as usize..] == im.d1[..]);
    });

    let log = io.log();
    let final_img = io.bytes();
    let final_init = io.init_map();
    check_image(&final_img, &final_init)
        .unwrap_or_else(|e| panic!("{name}: final image is bad: {e}"));

    let rep = explore(&initial, &init0, &log, &final_img, 4);
    eprintln!(
        "{name}: requests {} crash states checked {} unsafe crash points reported {}",
        log.len(),
        rep.checked,
        rep.failures.len()
    );
    eprintln!("{name}: request log (write_at + flush_meta + fsync):");
    dump_log(&initial, &final_img, &log);
    for f in &rep.failures {
        eprintln!("{name}: UNSAFE [{}] {}", f.req_idx, f.msg);
    }
    assert!(
        rep.failures.is_empty(),
        "{name}: unsafe crash image: {}",
        rep.failures[0].msg.replace('\n', " ")
    );
}

/// H2, consequence: the released host clusters are handed out again before
/// the replaced mapping is durable. COW guest cluster 0 (compressed), then
/// write guest cluster 2 (acknowledged, no flush). In every crash state guest
/// cluster 0 has to read as its old or as its new content and guest cluster 1
/// (never written) as its old content. Crash states here: subsets of whole
/// requests issued since the last fsync, replayed in issue order; the crash
/// image is read back through the library (read only).
#[test]
fn h2b_released_compressed_clusters_are_not_reused_before_the_mapping_is_durable() {
    let name = "h2b";
    let im = h2_build();
    let io = im.io.clone();
    let (initial, _) = io.checkpoint();
    let mut want0 = im.d0.clone();
    want0[8192..8192 + 4096].fill(0xc3);

    let rt = runtime();
    rt.block_on(async {
        let params = Qcow2DevParams::new(9, None, None, false, false);
        let dev = open(&io, "mem-h2b", &params).await;
        let wbuf = vec![0xc3u8; 4096];
        dev.write_at(&wbuf, 8192).await.unwrap();
        let n = io.log().len();
        let g2 = vec![0x77u8; H2_CS as usize];
        dev.write_at(&g2, 2 * H2_CS).await.unwrap();
        eprintln!(
            "{name}: COW of guest 0 took requests #0..#{}; guest 0 -> host {:#x}, guest 2 -> host {:#x}",
            n - 1,
            host_off(&dev, 0).await,
            host_off(&dev, 2 * H2_CS).await
        );
    });

    let log = io.log();
    eprintln!("{name}: request log (two write_at, nothing flushed by the caller):");
    for i in 0..log.len() {
        eprintln!("    {}", req_name(&log, i));
    }

    let apply_req = |img: &mut Vec<u8>, r: &Req| match r {
        Req::Write { off, data } => {
            img[*off as usize..*off as usize + data.len()].copy_from_slice(data)
        }
        Req::Zero { off, len } => img[*off as usize..*off as usize + *len].fill(0),
        Req::Fsync => {}
    };

    let mut failures = Vec::new();
    let mut checked = 0;
    let mut durable = initial.clone();
    let mut pending: Vec<usize> = Vec::new();
    for idx in 0..log.len() {
        if let Req::Fsync = log[idx] {
            for p in pending.drain(..) {
                apply_req(&mut durable, &log[p]);
            }
            continue;
        }
        pending.push(idx);
        assert!(pending.len() <= 10);
        let newest = pending.len() - 1;
        for mask in 0..(1u32 << pending.len()) {
            if mask & (1 << newest) == 0 {
                continue;
            }
            let mut img = durable.clone();
            for (b, p) in pending.iter().enumerate() {
                if mask & (1 << b) != 0 {
                    apply_req(&mut img, &log[*p]);
                }
            }
            checked += 1;

            let verdict: Result<(), String> = rt.block_on(async {
                let n = img.len();
                let cio = MemIo::new(img, vec![true; n / BS]);
                let params = Qcow2DevParams::new(9, None, None, true, false);
                let dev = open(&cio, "mem-h2b-crash", &params).await;
                let mut rbuf = vec![0u8; H2_CS as usize];
                match dev.read_at(&mut rbuf, 0).await {
                    Err(e) => return Err(format!("guest cluster 0 is unreadable: {e:?}")),
                    Ok(_) => {
                        if rbuf != im.d0 && rbuf != want0 {
                            let bad = (0..rbuf.len()).find(|i| rbuf[*i] != im.d0[*i]).unwrap();
                            return Err(format!(
                                "guest cluster 0 reads neither its old nor its new content (first difference to the old content at byte {bad}: {:#x}, old {:#x})",
                                rbuf[bad], im.d0[bad]
                            ));
                        }
                    }
                }
                match dev.read_at(&mut rbuf, H2_CS).await {
                    Err(e) => Err(format!(
                        "guest cluster 1 (never written) is unreadable: {e:?}"
                    )),
                    Ok(_) if rbuf != im.d1 => {
                        Err("guest cluster 1 (never written) changed its content".to_string())
                    }
                    Ok(_) => Ok(()),
                }
            });
            if let Err(e) = verdict {
                let persisted: Vec<String> = pending
                    .iter()
                    .enumerate()
                    .filter(|(b, _)| mask & (1 << b) != 0)
                    .map(|(_, p)| req_name(&log, *p))
                    .collect();
                let lost: Vec<String> = pending
                    .iter()
                    .enumerate()
                    .filter(|(b, _)| mask & (1 << b) == 0)
                    .map(|(_, p)| req_name(&log, *p))
                    .collect();
                failures.push(format!(
                    "crash after request {}:\n      persisted: {persisted:?}\n      lost:      {lost:?}\n      read back: {e}",
                    req_name(&log, idx)
                ));
                break;
            }
        }
    }

    eprintln!(
        "{name}: crash states checked {checked}, unsafe crash points {}",
        failures.len()
    );
    for f in &failures {
        eprintln!("{name}: UNSAFE {f}");
    }
    assert!(
        failures.is_empty(),
        "{name}: crash image with corrupted guest data: {}",
        failures[0].replace('\n', " ")
    );
}
